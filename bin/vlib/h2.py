"""H2: the real breadlog binary under the LD_PRELOAD shim, and the extracted driver model on
the same scenario.  Scenarios are small project trees; the oracle of the model (faults, stop
points, kill points) is derived from the physical operation index chosen for the shim."""
import time, base64, json, os, re, shutil, subprocess, uuid
from . import common as C

DEFAULT_MACROS = "log=info,log=warn,log=error,log=debug,log=trace"
ERRNO = {"EIO": 5, "ENOSPC": 28, "EXDEV": 18, "EACCES": 13}


class Scenario:
    def __init__(self, files, mode="edit", structured=None, use_cache=None, lock=None,
                 macros=DEFAULT_MACROS, extensions=None, extra_files=None, name=""):
        self.files = list(files)            # [(relative path under src/, bytes)]
        self.mode = mode                    # "edit" | "check"
        self.structured = structured        # None = omitted
        self.use_cache = use_cache          # None = omitted
        self.lock = lock                    # None | bytes
        self.macros = macros
        self.extensions = extensions        # None = omitted
        self.extra_files = extra_files or []   # [(path relative to the project dir, bytes)]
        self.name = name

    def yaml(self):
        y = "source_dir: src\n"
        if self.use_cache is not None:
            y += "use_cache: %s\n" % ("true" if self.use_cache else "false")
        y += "rust:\n"
        if self.structured is not None:
            y += "  structured: %s\n" % ("true" if self.structured else "false")
        if self.extensions is not None:
            y += "  extensions: [%s]\n" % ", ".join('"%s"' % e for e in self.extensions)
        ms = [m.split("=") for m in self.macros.split(",") if m]
        if ms:
            y += "  log_macros:\n"
            for mod, name in ms:
                y += "    - module: %s\n      name: %s\n" % (mod, name)
        else:
            y += "  log_macros: []\n"
        return y

    def eff_structured(self):
        return bool(self.structured)

    def eff_use_cache(self):
        return True if self.use_cache is None else self.use_cache

    def to_json(self):
        return {"name": self.name, "mode": self.mode, "structured": self.structured, "use_cache": self.use_cache,
                "lock_b64": None if self.lock is None else base64.b64encode(self.lock).decode(),
                "macros": self.macros, "extensions": self.extensions,
                "files": [[p, base64.b64encode(b).decode()] for p, b in self.files],
                "extra_files": [[p, base64.b64encode(b).decode()] for p, b in self.extra_files]}

    @staticmethod
    def from_json(d):
        return Scenario([(p, base64.b64decode(b)) for p, b in d["files"]], d["mode"], d["structured"],
                        d["use_cache"], None if d["lock_b64"] is None else base64.b64decode(d["lock_b64"]),
                        d["macros"], d["extensions"],
                        [(p, base64.b64decode(b)) for p, b in d.get("extra_files", [])], d.get("name", ""))

    def with_(self, **kw):
        s = Scenario(self.files, self.mode, self.structured, self.use_cache, self.lock, self.macros,
                     self.extensions, self.extra_files, self.name)
        for k, v in kw.items():
            setattr(s, k, v)
        return s


def lock_bytes(n):
    return ("# AUTO-GENERATED FILE - DON'T EDIT\n# If you would like to recalculate the next reference from your code, "
            "delete this file and\n# run Breadlog.\n\nnext_reference_id: %d\n" % n).encode()


def classify_lock(b):
    """Absent / Valid n / Corrupt, the way serde_yaml::from_str::<Cache> sees a file the tool wrote
    (or a template whose class is fixed by construction)."""
    if b is None:
        return "A"
    try:
        t = b.decode("utf-8")
    except UnicodeDecodeError:
        return "C"
    lines = [l for l in t.splitlines() if l.strip() and not l.lstrip().startswith("#")]
    if lines and lines[0].strip() == "---":          # an explicit document start, as older versions wrote it
        lines = lines[1:]
    if len(lines) == 1:
        m = re.fullmatch(r"next_reference_id:\s*([0-9]+)\s*", lines[0])
        if m and int(m.group(1)) <= 4294967295:
            return "V%d" % int(m.group(1))
    return "C"


class Obs:
    pass


MISSING_RE = re.compile(r"\[ref: 5\] Missing reference in file (.*), line (\d+), column (\d+)")
UNUSABLE_RE = re.compile(r"\[ref: 35\] Unusable reference will be ignored in file (.*), line (\d+), column (\d+)")
TOTAL_RE = re.compile(r"\[ref: 7\] Total missing references \(all files\): (\d+)")
INSERTED_RE = re.compile(r"\[ref: 21\] Num\. inserted reference\(s\): (\d+)")
NEXT_RE = re.compile(r"\[ref: 20\] Next reference ID: (\d+)")


# Breadlog's own log statements are identified by THEIR reference IDs (stable by design); the wording around
# the numbers is matched exactly first, and -- should a message have been reworded -- generically: a located
# message ends with a path and two integers (line, column), the count of a count message is its first integer.
LOC_STRICT = {5: MISSING_RE, 35: UNUSABLE_RE}
COUNT_STRICT = {7: TOTAL_RE, 21: INSERTED_RE, 20: NEXT_RE}
LOC_GENERIC = re.compile(r"(\S*[/\\]\S+?|\S+\.\w+?)[,;:]?\s\D*?(\d+)\D+(\d+)\D*$")


def _tagged(out, ref_id):
    tag = "[ref: %d]" % ref_id
    return [l.split(tag, 1)[1] for l in out.splitlines() if tag in l]


def parse_located(out, ref_id):
    """[(path, line, column)] of the messages carrying Breadlog's own reference ref_id."""
    res = [(m.group(1), int(m.group(2)), int(m.group(3))) for m in LOC_STRICT[ref_id].finditer(out)]
    rests = _tagged(out, ref_id)
    if len(res) == len(rests):
        return res
    res = []
    for r in rests:
        m = LOC_GENERIC.search(r)
        if m:
            res.append((m.group(1), int(m.group(2)), int(m.group(3))))
    return res


def parse_count(out, ref_id):
    m = COUNT_STRICT[ref_id].search(out)
    if m:
        return int(m.group(1))
    for r in _tagged(out, ref_id):
        ints = re.findall(r"\d+", r)
        if ints:
            return int(ints[0])
    return None



def snapshot(root):
    out = {}
    for dp, dns, fns in os.walk(root):
        for fn in fns:
            p = os.path.join(dp, fn)
            rel = os.path.relpath(p, root)
            if os.path.islink(p):
                out[rel] = ("link", os.readlink(p))
            else:
                try:
                    out[rel] = ("file", open(p, "rb").read())
                except OSError as ex:
                    out[rel] = ("unreadable", str(ex))
        for dn in dns:
            p = os.path.join(dp, dn)
            if os.path.islink(p):
                out[os.path.relpath(p, root)] = ("link", os.readlink(p))
    return out


def parse_trace(path):
    ops = []
    try:
        for line in open(path, errors="replace"):
            f = line.rstrip("\n").split(" ")
            if not f or not f[0]:
                continue
            if f[0] == "X":
                ops.append({"k": None, "op": f[1], "detail": " ".join(f[2:])})
                continue
            try:
                k = int(f[0])
            except ValueError:
                continue
            ops.append({"k": k, "op": f[1], "ret": int(f[2]), "errno": int(f[3]), "rest": f[4:]})
    except FileNotFoundError:
        pass
    return ops


def run_impl(s, plan=None, release=False, timeout=120, keep=False, setup_hook=None, cwd=None, config_arg=None):
    """Runs the real binary on a fresh copy of the scenario.  plan: shim plan string."""
    d = os.path.join(C.RUN, "h2-" + uuid.uuid4().hex[:12])
    proj, tmp = os.path.join(d, "proj"), os.path.join(d, "tmp")
    os.makedirs(os.path.join(proj, "src"))
    os.makedirs(tmp)
    try:
        for rel, b in s.files:
            p = os.path.join(proj, "src", rel)
            os.makedirs(os.path.dirname(p), exist_ok=True)
            open(p, "wb").write(b)
        for rel, b in s.extra_files:
            p = os.path.join(proj, rel)
            os.makedirs(os.path.dirname(p), exist_ok=True)
            open(p, "wb").write(b)
        open(os.path.join(proj, "Breadlog.yaml"), "w").write(s.yaml())
        if s.lock is not None:
            open(os.path.join(proj, "Breadlog.lock"), "wb").write(s.lock)
        if setup_hook:
            setup_hook(proj)
        # the temporary directory is not empty in real life: old files, some of them looking like the
        # tool's own scratch files left by a killed run
        decoys = {"breadlog-11111111-2222-3333-4444-555555555555.tmp": b"fn stale() {}\n",
                  "breadlog-notes.tmp": b"notes\n", "unrelated.txt": b"x\n"}
        old = time.time() - 3 * 86400
        for nme, b in decoys.items():
            dp = os.path.join(tmp, nme)
            open(dp, "wb").write(b)
            os.utime(dp, (old, old))
        before = snapshot(proj)
        env = dict(os.environ, LD_PRELOAD=C.SHIM, VSHIM_LOG=os.path.join(d, "trace"),
                   VSHIM_ROOTS=proj + ":" + tmp, TMPDIR=tmp, RUST_BACKTRACE="0")
        if plan:
            env["VSHIM_PLAN"] = plan
        exe = C.BREADLOG_REL if release else C.BREADLOG
        cmd = [exe, "-c", config_arg or os.path.join(proj, "Breadlog.yaml")] + (["--check"] if s.mode == "check" else [])
        o = Obs()
        try:
            r = subprocess.run(cmd, env=env, capture_output=True, timeout=timeout, cwd=cwd or d)
            o.rc, o.timed_out = r.returncode, False
            o.out = (r.stdout + r.stderr).decode("utf-8", "replace")
        except subprocess.TimeoutExpired as ex:
            o.rc, o.timed_out = None, True
            o.out = ((ex.stdout or b"") + (ex.stderr or b"")).decode("utf-8", "replace")
        o.dir, o.proj = d, proj
        o.trace = parse_trace(os.path.join(d, "trace"))
        o.before = before
        o.after = snapshot(proj)
        o.tmp_decoys_changed = sorted(nme for nme, b in decoys.items()
                                      if not os.path.exists(os.path.join(tmp, nme))
                                      or open(os.path.join(tmp, nme), "rb").read() != b
                                      or abs(os.path.getmtime(os.path.join(tmp, nme)) - old) > 2)
        o.tmp_left = sorted(x for x in os.listdir(tmp) if x not in decoys)
        lp = os.path.join(proj, "Breadlog.lock")
        o.lock = open(lp, "rb").read() if os.path.exists(lp) else None
        o.missing = [(os.path.relpath(f, os.path.join(proj, "src")), l, c) for f, l, c in parse_located(o.out, 5)]
        o.unusable = [(os.path.relpath(f, os.path.join(proj, "src")), l, c) for f, l, c in parse_located(o.out, 35)]
        o.total = parse_count(o.out, 7)
        o.inserted = parse_count(o.out, 21)
        o.next_id = parse_count(o.out, 20)
        o.used_cache = "[ref: 17]" in o.out
        o.panicked = "panicked at" in o.out
        return o
    finally:
        if not keep:
            shutil.rmtree(d, ignore_errors=True)


def exit_class(o):
    if o.timed_out:
        return "HANG"
    if o.rc == 0:
        return "OK"
    if o.rc is not None and o.rc < 0:
        return "SIG%d" % (-o.rc)
    if o.rc == 101 or o.panicked:
        return "PANIC"
    return "ERR"


def src_rel(o, path):
    return os.path.relpath(path, os.path.join(o.proj, "src"))


def walk_order(o, s):
    """Order in which the implementation first opened the in-scope files."""
    order = []
    srcroot = os.path.join(o.proj, "src") + os.sep
    for t in o.trace:
        if t["k"] is not None and t["op"] == "open" and t["rest"] and t["rest"][0] == "r":
            p = " ".join(t["rest"][1:])
            if p.startswith(srcroot):
                rel = p[len(srcroot):]
                if rel not in order:
                    order.append(rel)
    return order


def classify_ops(o, s):
    """For every tracked operation of a (fault-free) trace: (k, kind, file index or None, pass).
    kinds: cfg, lockstat, lockread, disc, src_open, src_read, src_other, tmp_create, tmp_write,
    rename, unlink, tmp_other, lock_open, lock_write, lock_other"""
    order = walk_order(o, s)
    srcroot = os.path.join(o.proj, "src")
    lockp = os.path.join(o.proj, "Breadlog.lock")
    cfgp = os.path.join(o.proj, "Breadlog.yaml")
    tmproot = os.path.dirname(o.proj) + "/tmp/"
    opened = {}
    cur = (None, None)          # (file index, pass)
    res = []
    seen_src_open = False
    for t in o.trace:
        if t["k"] is None:
            continue
        op, rest = t["op"], t["rest"]
        path = " ".join(rest[1:]) if op == "open" else (rest[-1] if op in ("read", "write") else (rest[0] if rest else ""))
        if op in ("read", "write"):
            path = " ".join(rest[1:])
        if op == "rename":
            path = rest[0]
        kind, fi, ps = "other", None, None
        if path == cfgp:
            kind = "cfg"
        elif path == lockp:
            if op == "stat":
                kind = "lockstat" if not seen_src_open else "lock_other"
            elif op == "open":
                kind = "lock_open" if "w" in rest[0] else "lockread"
            elif op == "write":
                kind = "lock_write"
            elif op == "read":
                kind = "lockread"
            else:
                kind = "lock_other"
        elif path.startswith(tmproot):
            fi, ps = cur
            if op == "open":
                kind = "tmp_create"
            elif op == "write":
                kind = "tmp_write"
            elif op == "rename":
                kind = "rename"
            elif op == "unlink":
                kind = "unlink"
            else:
                kind = "tmp_other"
        elif path.startswith(srcroot + os.sep) and op in ("open", "read", "stat", "close") and \
                os.path.relpath(path, srcroot) in order and (op != "stat" or seen_src_open or False):
            rel = os.path.relpath(path, srcroot)
            if op == "open":
                seen_src_open = True
                opened[rel] = opened.get(rel, 0) + 1
                cur = (order.index(rel), opened[rel])
                kind = "src_open"
            elif op == "read":
                kind = "src_read"
            else:
                kind = "src_other"
            fi, ps = order.index(rel), opened.get(rel, 0)
        elif path.startswith(srcroot):
            kind = "disc"
        res.append({"k": t["k"], "kind": kind, "file": fi, "pass": ps, "op": op})
    return order, res


def model_run(s, order, stop1=None, stop2=None, rfail1=(), rfail2=(), faults=None, lockfault="ok",
              crash=None, disc="ok", lock_state=None):
    """One `run` line for the model runner; returns the parsed answer."""
    files = dict(s.files)
    lk = lock_state if lock_state is not None else classify_lock(s.lock)
    fl = ",".join("%d:%s" % (i, k) for i, k in sorted((faults or {}).items())) or "-"
    f = ["run", s.mode, "1" if s.eff_structured() else "0", "1" if s.eff_use_cache() else "0", s.macros, lk,
         "-" if stop1 is None else str(stop1), "-" if stop2 is None else str(stop2),
         ",".join(map(str, rfail1)) or "-", ",".join(map(str, rfail2)) or "-", fl, lockfault,
         "-" if crash is None else str(crash), disc] + [files[r].hex() for r in order]
    return "\t".join(f)


def parse_model(ans):
    d = {"exit": "?", "total": "none", "lock": "?"}
    for tok in ans.split(" ")[1:]:
        k, _, v = tok.partition("=")
        d[k] = v
    d["ids"] = [tuple(map(int, x.split(":"))) for x in d.get("ids", "").split(";") if x]
    d["reports"] = [(x.split(":")[0],) + tuple(map(int, x.split(":")[1:])) for x in d.get("reports", "").split(";") if x]
    d["src"] = [bytes.fromhex(x) for x in d.get("src", "").split(",")] if d.get("src") else []
    if "csrc" in d:
        d["csrc"] = [bytes.fromhex(x) for x in d["csrc"].split(",")] if d["csrc"] else []
    d["effs"] = [x for x in d.get("effs", "").split(",") if x]
    return d


def run_models(lines, timeout=600):
    from . import h1
    return [parse_model(a) if a and a.startswith("run ") else {"error": a} for a in h1.model_only(lines, timeout=timeout)]


def compare(s, o, order, m, what=("exit", "src", "lock", "tmp", "reports", "total")):
    """Differences between an observation and a model answer (empty list = they agree)."""
    diffs = []
    if "error" in m:
        return ["model runner gave no answer: %r" % (m["error"],)]
    if "exit" in what and exit_class(o) != m["exit"]:
        diffs.append("exit: implementation %s (rc=%s), model %s" % (exit_class(o), o.rc, m["exit"]))
    if "src" in what:
        for i, rel in enumerate(order):
            got = o.after.get(os.path.join("src", rel), (None, None))[1]
            want = m["src"][i] if i < len(m["src"]) else None
            if got != want:
                diffs.append("file %s: implementation %r, model %r" % (rel, got, want))
    if "lock" in what and classify_lock(o.lock) != m["lock"]:
        diffs.append("lock: implementation %s, model %s" % (classify_lock(o.lock), m["lock"]))
    if "tmp" in what and len(o.tmp_left) != int(m.get("tmp", "0")):
        diffs.append("temp files left: implementation %r, model %s" % (o.tmp_left, m.get("tmp")))
    if "reports" in what and s.mode == "check":
        mm = [(order[f], l, c) for kind, f, l, c in m["reports"] if kind == "M"]
        mu = [(order[f], l, c) for kind, f, l, c in m["reports"] if kind == "U"]
        if o.missing != mm:
            diffs.append("missing-reference reports: implementation %r, model %r" % (o.missing, mm))
        if o.unusable != mu:
            diffs.append("unusable reports: implementation %r, model %r" % (o.unusable, mu))
    if "total" in what:
        want = None if m["total"] == "none" else int(m["total"])
        got = o.total if s.mode == "check" else o.inserted
        if got != want:
            diffs.append("printed total: implementation %r, model %r" % (got, want))
    return diffs


def other_files_changed(o, order):
    """Project files other than the in-scope ones and the lock whose state differs."""
    keep = {os.path.join("src", r) for r in order} | {"Breadlog.lock"}
    ch = []
    for rel in set(o.before) | set(o.after):
        if rel in keep:
            continue
        if o.before.get(rel) != o.after.get(rel):
            ch.append(rel)
    return sorted(ch)
