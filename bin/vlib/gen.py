"""Generators of Rust-like source text with a built-in oracle.

`cfl_file` renders a list of items (plain code, comments, string literals, decoys, directives,
log statements in canonical form with arbitrary inter-token layout) and returns, for the given
configuration, what the property texts say Breadlog must find: one expected entry per statement
that is not under an ignore directive -- position, line, column, kind, reference -- independent
of the grammar.  `malformed_files` is the separate mostly-invalid stream."""
import base64, random, re

U32 = 4294967295
CONFIGURED = [("log", "info"), ("log", "warn"), ("log", "error"), ("log", "debug"), ("log", "trace")]
MACROS_ARG = ",".join("%s=%s" % m for m in CONFIGURED)
# configured macro sets the campaigns rotate through (the first is the default)
CONFIG_SETS = [
    CONFIGURED,
    [("log", "info"), ("tracing", "info")],                       # one name, two module paths
    [("tracing", "info"), ("log", "info"), ("log", "warn")],
    [("slog", "info"), ("slog", "warn")],                         # log::info is then a decoy
    [("app::telemetry", "log_event"), ("log", "error")],          # multi-segment module path
    [("log", "info")],
]


def macros_arg(configured):
    return ",".join("%s=%s" % m for m in configured)


def names_of_interest(configured):
    return {n for _, n in configured} | {"%s::%s" % (m, n) for m, n in configured}


def decoy_names(configured):
    """Names that must NOT count: other names, configured names as mere prefix / suffix, other module
    paths (incl. proper suffixes and extensions of the configured path), other letter case."""
    ok = names_of_interest(configured)
    out = set(DECOY_MACROS)
    for m, n in configured:
        full = "%s::%s" % (m, n)
        for i in range(1, len(full)):
            suf = full[i:]
            if suf.startswith(":") or not (suf[0].isalpha() or suf[0] == "_"):
                continue
            out.add(suf)
        out |= {"x" + n, n + "x", n + "_", "_" + n, "x" + full, "other::" + n, m + "x::" + n, "x::" + full,
                n.upper(), n.capitalize(), m.capitalize() + "::" + n, m + "::" + n + "2", "a::" + n, "_::" + n}
    return sorted(x for x in out if x not in ok)


def b64(b):
    return base64.b64encode(b).decode()


def unb64(s):
    return base64.b64decode(s)


WS = [" ", "  ", "\t", "\n", "\n    ", "\r\n  ", " \n\t", " ", "\x0c"]
LAYOUT_COMMENTS = ["/* c */", "/* info!(\"no\") */", "// trailing\n", "/* a, b; */", "/**/", "// warn!(\"x\");\n    "]


def layout(rng, rich, allow_empty=True, nl_ok=True):
    """Text that pest's implicit skip consumes: whitespace and comments."""
    if not rich:
        return "" if allow_empty and rng.random() < 0.5 else " "
    out = ""
    for _ in range(rng.choice([0, 1, 1, 2, 3]) if allow_empty else rng.choice([1, 1, 2, 3])):
        if rng.random() < 0.75:
            w = rng.choice(WS)
            if not nl_ok:
                w = w.replace("\n", " ").replace("\r", " ").replace(" ", " ")
            out += w
        else:
            c = rng.choice(LAYOUT_COMMENTS)
            if not nl_ok and "\n" in c:
                c = "/* x */"
            out += c
    if not allow_empty and out == "":
        out = " "
    return out


MESSAGES = ["hello", "value: {}", "{} and {:?}", "x = {x}", "{{literal}}", "café ☃ \U0001F600", "",
            "tab\\there", "quote \\\" inside", "backslash \\\\", "a; b, c", "ends with backslash \\\\",
            "[ref: 12]not at start? yes at start", "see [ref: 5] later", "[ref:5] x", "[ref: ] x", "[Ref: 5] x",
            " [ref: 5] leading blank", "// not a comment", "/* nor this */ x", "url http://example.com/a",
            "[ref: 99999999999] too long", "[ref: 4294967296] too big", "info!(\\\"nested\\\")", "line1\\nline2",
            "'single'", "{0} {0}", "%d percent", "[ref: 007] zeros", "٣ arabic digit [ref: ٣]"]
VALUES_IDENT = ["x", "count", "self.id", "a.len()", "user_id", "_v", "ü_id", "x as u64"]
VALUES_STR = ['"v"', '"a;b"', '"a, b"', '"with \\" quote"', '""', '"//x"', '"ref = 5"']
VALUES_NUM = ["1", "42", "007", "4294967295"]
MODIFIERS = ["", ":?", ":debug", ":%", ":display", ":err", ":sval", ":serde"]
KEYS = ["k", "key", "user", "a1", "_p", "r", "reff", "re", "Ref", "ä"]
PLAIN = ["let x = 5;", "fn helper(a: u32) -> u32 { a + 1 }", "struct S { a: u8 }", "}", "{", "x += 1;",
         "use log::{info, warn};", "match y { 1 => 2, _ => 3 };", "let v = vec![1, 2, 3];", "impl T for S {}",
         "#[derive(Debug)]", "let c = 'a';", "return;", "if a { b } else { c }", "loop { break; }",
         "let t = (1, 2);", "type A = u8;", "let info = 3;", "let s = r#\"raw\"#;",
         # a double quote in code outside any string literal (char / byte literals), lifetimes, raw strings
         "if c == '\"' { n += 1; }", "let q = b'\"';", "let e = '\\\"';", "let lt: &'static str = NAME;",
         "let r = r#\"a \"quoted\" word\"#;", "match ch { '\"' => 1, '\\'' => 2, _ => 3 };"]
PREFIX_SAME_LINE = ["", "", "return ", "else { ", "x => ", "if a { ", "let _ = ", "Ok(()) => ", "; ", "} ", "unsafe { ",
                    "move || ", "5 + ", "ü; "]
DECOY_MACROS = ["println", "myinfo", "infox", "info2", "other::info", "log::infox", "logx::info", "tracing::info",
                "format", "write", "_info", "Info", "INFO", "log::Info", "xlog::warn", "warning", "errorr"]
COMMENT_DECOYS = ["// info!(\"commented\");", "/* warn!(\"commented\"); */", "/// error!(\"doc\");", "//! debug!(\"inner doc\");",
                  "/* multi\n   info!(\"line\");\n   comment */", "//info!(\"tight\")", "/** trace!(\"docblock\") */",
                  "// log::info!(target: \"t\", \"x\");",
                  # a bare CR does not end a line comment (only \n does): the text after it is still comment
                  "// cr\rinfo!(\"after a bare cr\");", "// x\r    warn!(\"still comment\");",
                  # ... nor do the other characters some editors treat as line ends
                  "// ls\u2028info!(\"after U+2028\");", "// ps\u2029warn!(\"after U+2029\");",
                  "// nel\u0085error!(\"after U+0085\");", "// ff\x0cinfo!(\"after form feed\");"]
DIRECTIVES = {
    "ignore": ["// breadlog:ignore", "//breadlog:ignore", "//   BREADLOG:IGNORE   ", "/* breadlog:ignore */",
               "/*Breadlog:Ignore*/", "// BreadLog:IGNORE"],
    "no-kvp": ["// breadlog:no-kvp", "/* breadlog:no-kvp */", "//  Breadlog:No-KVP ", "/*BREADLOG:NO-KVP*/"],
    "near": ["// breadlog:ignore please", "// breadlog: ignore", "// breadlog:ignored", "/* breadlog:ignore x */", "// no breadlog:ignore",
             "// breadlog:no-kvp x", "// breadlog:nokvp", "# breadlog:ignore", "// breadlog:ignore // breadlog:no-kvp"],
}


def token_rule(msg_source):
    """The reference a message literal carries, by the rule of C12 (on the source text of the literal)."""
    m = re.match(r"\[ref: ([0-9]{1,10})\]", msg_source, flags=re.A)
    if not m:
        return None
    v = int(m.group(1))
    return v if v <= U32 else None


class Out:
    """Incremental text builder that tracks byte offset, line and column the way pest does."""

    def __init__(self):
        self.parts = []
        self.off = 0
        self.line = 1
        self.col = 1
        self.prev_cr = False

    def add(self, s):
        self.parts.append(s)
        i = 0
        while i < len(s):
            ch = s[i]
            if ch == "\r" and i + 1 < len(s) and s[i + 1] == "\n":
                self.line += 1
                self.col = 1
                i += 2
                continue
            if ch == "\n":
                self.line += 1
                self.col = 1
            else:
                self.col += 1
            i += 1
        self.off += len(s.encode("utf-8"))

    def pos(self):
        return (self.off, self.line, self.col)

    def text(self):
        return "".join(self.parts)


def gen_stmt(rng, structured, rich, opts=None, configured=None):
    """Returns a dict describing one statement in canonical form (not yet rendered)."""
    opts = opts or {}
    mod, name = rng.choice(configured or CONFIGURED)
    st = {"qualified": rng.random() < 0.35, "module": mod, "name": name}
    st["target"] = rng.choice([None, None, None, "tgt", "a::b", "with space", "x\\\"y", "//t", ""]) \
        if opts.get("target", True) else None
    nk = rng.choice([0, 0, 0, 1, 1, 2, 3]) if opts.get("kvs", True) else 0
    kvs = []
    for _ in range(nk):
        key = rng.choice(KEYS)
        form = rng.random()
        if form < 0.2:
            kvs.append({"key": key, "mod": rng.choice(MODIFIERS), "value": None})         # shorthand
        else:
            kind = rng.choice(["ident", "str", "num"])
            val = rng.choice({"ident": VALUES_IDENT, "str": VALUES_STR, "num": VALUES_NUM}[kind])
            kvs.append({"key": key, "mod": rng.choice(MODIFIERS), "value": val, "vkind": kind})
    st["kvs"] = kvs
    # a ref key-value (mostly in structured runs)
    st["refkv"] = None
    if rng.random() < (0.45 if structured else 0.1):
        kind = rng.choice(["int", "int", "int", "bad"])
        val = rng.choice(["7", "0", "12", "4294967295", "00042", str(rng.randint(1, 99999))]) if kind == "int" else \
            rng.choice(['"7"', "x", "id", "4294967296", "7u32", "1_000", "-1" if False else "seven", "99999999999"])
        st["refkv"] = {"value": val, "index": rng.randint(0, len(kvs)), "mod": rng.choice(["", "", ":?"]),
                       "gap_after": rng.choice(["", "", " ", "  ", "\n    ", " /* c */", "/* id */ ", " // c\n    ", " //* odd\n"])}
    msg = rng.choice(MESSAGES)
    if rng.random() < 0.3:
        msg = "[ref: %d] %s" % (rng.choice([0, 1, 7, 4294967295, rng.randint(1, 10 ** 6)]), msg)
    st["msg"] = msg
    st["args"] = rng.choice(["", "", ", x", ", a, b", ", x = 5", ",\n    value", ", \"lit\""])
    st["trailing_comma"] = rng.random() < 0.1
    st["prefix"] = rng.choice(PREFIX_SAME_LINE) if opts.get("prefix", True) else ""
    st["semi"] = rng.choice([";", ";", ";", "", " }"])
    return st


def render_stmt(out, st, rng, structured, rich, no_kvp, ignored):
    """Appends the statement to `out` and returns the expected entry (or None when ignored)."""
    g = lambda **kw: layout(rng, rich, **kw)            # noqa: E731
    out.add(st["prefix"])
    stmt_line = out.line
    out.add(("%s::" % st["module"] if st["qualified"] else "") + st["name"])
    out.add(g(nl_ok=False) if rich and rng.random() < 0.15 else "")
    out.add("!")
    out.add(g(nl_ok=False) if rich and rng.random() < 0.15 else "")
    paren = out.pos()
    out.add("(")
    out.add(g())
    if st["target"] is not None:
        out.add("target:")
        out.add(g())
        out.add('"%s"' % st["target"])
        out.add(g())
        out.add(",")
        out.add(g())
    after_target = out.pos()
    kvs = list(st["kvs"])
    items = [("kv", kv) for kv in kvs]
    if st["refkv"] is not None:
        items.insert(min(st["refkv"]["index"], len(items)), ("ref", st["refkv"]))
    ref_value_pos = None
    for n, (kind, kv) in enumerate(items):
        last = n == len(items) - 1
        if kind == "ref":
            out.add("ref")
            out.add(kv["mod"])
            out.add(g(nl_ok=True) if rich and rng.random() < 0.3 else " ")
            out.add("=")
            out.add(g(nl_ok=True) if rich and rng.random() < 0.3 else " ")
            ref_value_pos = out.pos()
            out.add(kv["value"])
            out.add(kv["gap_after"])
        else:
            out.add(kv["key"])
            out.add(kv["mod"])
            if kv["value"] is not None:
                out.add(g() if rich and rng.random() < 0.3 else " ")
                out.add("=")
                out.add(g() if rich and rng.random() < 0.3 else " ")
                out.add(kv["value"])
                out.add(g() if rich and rng.random() < 0.3 else "")
        out.add(";" if last else ",")
        out.add(g())
    out.add('"')
    msg_pos = out.pos()
    out.add(st["msg"])
    out.add('"')
    out.add(st["args"])
    if st["trailing_comma"]:
        out.add(",")
    out.add(g() if rich and rng.random() < 0.2 else "")
    out.add(")")
    out.add(st["semi"])
    if ignored:
        return None, stmt_line
    short = st["name"]
    if structured and not no_kvp:
        if st["refkv"] is not None:
            txt = st["refkv"]["value"]
            ok = re.fullmatch(r"\+?[0-9]+", txt, flags=re.A) is not None and int(txt) <= U32
            return {"pos": ref_value_pos[0], "line": ref_value_pos[1], "col": ref_value_pos[2],
                    "ref": int(txt) if ok else None, "kind": "StructuredPreExisting", "usable": ok, "name": short,
                    "probe": "[ref: 7] "}, stmt_line
        ip = after_target if st["target"] is not None else (paren[0] + 1, paren[1], paren[2] + 1)
        suffix = ", " if items else "; "
        return {"pos": ip[0], "line": ip[1], "col": ip[2], "ref": None, "kind": "StructuredNew", "usable": True,
                "name": short, "probe": "ref = 7" + suffix}, stmt_line
    return {"pos": msg_pos[0], "line": msg_pos[1], "col": msg_pos[2], "ref": token_rule(st["msg"]),
            "kind": "String", "usable": True, "name": short, "probe": "[ref: 7] "}, stmt_line


def cfl_file(rng, structured, rich=True, n_items=None, features=None, configured=None):
    """Returns (bytes, expected entries, description).  features: set of item kinds to draw from."""
    configured = configured or CONFIGURED
    decoys = decoy_names(configured)
    feats = features or {"plain", "comment", "strlit", "decoy", "stmt", "directive", "blank"}
    out = Out()
    expected = []
    n_items = n_items or rng.randint(1, 14)
    pending = None          # directive that applies to statements starting on the next non-blank line
    pending_line = None
    nl = rng.choice(["\n", "\n", "\n", "\r\n"])
    last_stmt_line = None
    if rng.random() < 0.05:
        out.add("\ufeff")                                    # a byte-order mark at the start of the file
    for _ in range(n_items):
        kind = rng.choice(sorted(feats))
        indent = rng.choice(["", "    ", "\t", "        "])
        if kind == "blank":
            out.add(rng.choice(["", "   ", "\t"]) + nl)
            continue                                        # blank lines keep a pending directive
        if kind == "directive":
            dk = rng.choice(["ignore", "no-kvp", "near"])
            txt = rng.choice(DIRECTIVES[dk])
            out.add(indent + txt + nl)
            pending = dk if dk != "near" else None
            continue
        if kind == "stmt":
            # one or two statements starting on this line
            out.add(indent)
            first_line = out.line
            for k in range(rng.choice([1, 1, 1, 2])):
                st = gen_stmt(rng, structured, rich, configured=configured)
                if k > 0:
                    st["prefix"] = " "
                    if out.line != first_line:
                        pending = None      # starts on a later line: the line before it is not the directive
                e, _ = render_stmt(out, st, rng, structured, rich, no_kvp=(pending == "no-kvp"),
                                   ignored=(pending == "ignore"))
                if e is not None:
                    expected.append(e)
            out.add(rng.choice(["", " // tail comment", " /* tail */"]) + nl)
            pending = None
            continue
        if kind == "plain":
            out.add(indent + rng.choice(PLAIN) + nl)
        elif kind == "comment":
            out.add(indent + rng.choice(COMMENT_DECOYS) + nl)
        elif kind == "strlit":
            body = rng.choice(["info!(\\\"x\\\")", "plain", "warn!(\\\"y\\\"); error!(\\\"z\\\")", "a \\\\ b",
                               "target: \\\"t\\\"", "café", "log::info!(\\\"q\\\", 1)"])
            out.add(indent + 'let s = "%s";' % body + nl)
        elif kind == "decoy":
            m = rng.choice(decoys)
            form = rng.random()
            if form < 0.6:
                out.add(indent + '%s!("decoy %s");' % (m, rng.choice(["a", "{}", "[ref: 3] x"])) + nl)
            else:
                # a configured name without a literal message
                cm, cn = rng.choice(configured)
                name = rng.choice([cn, "%s::%s" % (cm, cn)])
                out.add(indent + "%s!(%s);" % (name, rng.choice(["msg", "format!(fmt)", "&s", "x, y", "CONST", "", "1"])) + nl)
        pending = None
    if rng.random() < 0.2:
        # a comment on the last line without trailing newline
        out.add(rng.choice(["// info!(\"eof\")", "/* warn!(\"eof\") */", "// end"]))
    return out.text().encode("utf-8"), expected


def cfl_files(rng, n, structured):
    return [cfl_file(rng, structured, rich=rng.random() < 0.7)[0] for _ in range(n)]


def multibyte_window_files():
    """Statements placed after long runs of multi-byte text, at every alignment: a slice taken a fixed
    number of bytes before a statement must still fall on a character boundary."""
    out = []
    for ch, reps in (("é", 40000), ("語", 30000), ("\U0001F600", 20000)):
        for pad in range(0, len(ch.encode("utf-8"))):
            body = "x" * pad + "// " + ch * reps + "\n"
            out.append((body + "fn f() { info!(\"after %d\"); }\n" % pad + "/* " + ch * 1500 + " */ warn!(\"w\");\n").encode("utf-8"))
    for n in (1000, 1366, 2731, 4093, 4096, 8190):
        out.append(("/* " + "語" * n + " */\ninfo!(\"a\");\n" + "// " + "é" * n + "\nüber(); error!(\"b\");\n").encode("utf-8"))
    return out


# ---- the malformed stream -----------------------------------------------------------------------

FRAGMENTS = ["info!(", "warn!(\"", "\"", "\\\"", "/*", "*/", "//", "\n", "\r", "\r\n", "target:", "ref = ", ";", ",", "(", ")",
             "log::", "::", "!", "{", "}", "[ref: ", "]", "1", "a", "_", " ", "\t", "ü", " ", "\u0085", "\U0001F600",
             "\\", "=", ":?", "'", "r#\"", "\"#", "info", "error!(\"x\")", "‎", "﻿", "\x00", "́"]


def malformed_files(rng, n):
    out = []
    for i in range(n):
        mode = i % 5
        if mode == 0:           # token soup
            out.append("".join(rng.choice(FRAGMENTS) for _ in range(rng.randint(1, 80))).encode("utf-8"))
        elif mode == 1:         # character-level mutation of a valid file
            b, _ = cfl_file(rng, bool(rng.getrandbits(1)))
            t = list(b.decode("utf-8"))
            for _ in range(rng.randint(1, 6)):
                if not t:
                    break
                p = rng.randrange(len(t))
                op = rng.random()
                if op < 0.4:
                    del t[p]
                elif op < 0.8:
                    t.insert(p, rng.choice(FRAGMENTS))
                else:
                    t[p] = rng.choice(FRAGMENTS)
            out.append("".join(t).encode("utf-8"))
        elif mode == 2:         # byte-level mutation (may produce invalid UTF-8)
            b, _ = cfl_file(rng, bool(rng.getrandbits(1)))
            bb = bytearray(b)
            for _ in range(rng.randint(1, 4)):
                if bb:
                    bb[rng.randrange(len(bb))] = rng.randrange(256)
            out.append(bytes(bb))
        elif mode == 3:         # unicode injection at grammar boundaries
            u = rng.choice(["ü", " ", "\U0001F600", "\u0085", "é"])
            tmpl = rng.choice(["%sinfo!(\"x\");", "info%s!(\"x\");", "%s!(\"x\");", "info!(%s\"x\");", "info!(\"%sx\");",
                               "x%s = 1; info!(k%s = 1; \"m\");", "info!(target: \"%s\", \"m\");", "%s\ninfo!(\"x\")",
                               "info!(ref = %s; \"m\");", "a%sb!(\"x\"); warn!(\"y\")"])
            out.append((tmpl.replace("%s", u)).encode("utf-8"))
        else:                   # edge shapes
            out.append(rng.choice([b"", b"\n", b"info!(\"", b"info!(\"x", b"/* unterminated info!(\"x\");",
                                   b"\"unterminated info!(\"x\");", b"info!(\"x\")", b"// info!(\"x\")", b"info!",
                                   b"\xff\xfeinfo!(\"x\");", b"\xc3", b"info!(\"a\");\r\ninfo!(\"b\");\r", b"\r\r\r",
                                   "﻿info!(\"bom\");".encode(), b"info!(k = ; \"m\");", b"info!(;\"m\");",
                                   b"info!(target: \"t\" \"m\");", b"info!(\"a\" \"b\");", b"info ! ( \"spaced\" ) ;"]))
    return out


def big_file(rng, n):
    lines = []
    for i in range(n):
        r = rng.random()
        if r < 0.5:
            lines.append('    info!("message number {} of many", %d);' % i)
        elif r < 0.7:
            lines.append('    warn!("[ref: %d] already has one");' % (i + 1000000))
        elif r < 0.9:
            lines.append("    let v%d = compute(%d) + other_function_with_a_long_name(%d);" % (i, i, i))
        else:
            lines.append("    // a comment line with info!(\"text\") in it")
    return ("fn big() {\n" + "\n".join(lines) + "\n}\n").encode()



def feature_matrix():
    """Deterministic coverage of the statement feature product (one statement per combination):
    key-value list shape x target x macro path form x message kind.  Returns source text."""
    kv_shapes = {
        "none": [], "shorthand1": ["user"], "shorthand2": ["user", "attempts"], "shorthand_mod": ["user:%", "attempts:?"],
        "valued1": ["k = 1"], "valued2": ["k = 1", 'name = "a;b"'], "mixed_sv": ["user", "k = 1"], "mixed_vs": ["k = 1", "user"],
        "mod_valued": ["pt:? = pt", "code:% = 7"], "ident_value": ["k = user.id"],
    }
    lines = []
    n = 0
    for shape, kvs in kv_shapes.items():
        for target in (None, "net"):
            for qualified in (False, True):
                for msg in ("plain", "value {}", "{{braces}}"):
                    n += 1
                    parts = []
                    if target:
                        parts.append('target: "%s",' % target)
                    if kvs:
                        parts.append(", ".join(kvs) + ";")
                    parts.append('"%s %s %d"%s' % (msg, shape, n, ", x" if "{}" in msg else ""))
                    lines.append("    %sinfo!(%s);" % ("log::" if qualified else "", " ".join(parts)))
    return "fn matrix() {\n" + "\n".join(lines) + "\n}\n"


def referenced_matrix(structured):
    """Deterministic: statements that ALREADY carry a reference, in every place a reference can stand, with
    plain statements lacking one in between.  Returns (bytes, sorted insertion offsets the property text demands):
    the referenced statements must receive nothing."""
    if structured:
        refd = ["ref = 7", "ref = 7, k = 1", "k = 1, ref = 7", "user, ref = 7", "user, host, ref = 7",
                "user, host, port, ref = 7", "user:?, ref = 7", "k = 1, user, ref = 7, z = 2", "ref:? = 7",
                "ref:% = 7, user", 'name = "a;b", ref = 7', "ref = 7 /* c */, k = 1", "user,\n        ref = 7"]
        stmts = []
        for i, kv in enumerate(refd):
            for target in ("", 'target: "net", '):
                stmts.append('info!(%s%s; "referenced %d");' % (target, kv, i))
    else:
        stmts = ['info!("[ref: 7] a");', 'warn!(target: "net", "[ref: 8] b {}", x);', 'info!(user, k = 1; "[ref: 9] c");',
                 'log::error!(target: "t", user:?; "[ref: 4294967295] d");', 'info!(\n    "[ref: 10] e"\n);',
                 'info!("[ref: 11]");', 'info!("[ref: 12]{}", x);']
    out = Out()
    want = []
    out.add("fn referenced() {\n")
    for i, st in enumerate(stmts):
        out.add("    " + st + "\n")
        out.add("    info!(")
        if structured:
            want.append(out.off)
        out.add('"')
        if not structured:
            want.append(out.off)
        out.add('need %d");\n' % i)
    out.add("}\n")
    return out.text().encode("utf-8"), sorted(want)
