"""Shared machinery of the parser-level property checks (C10, C11, C13, C14): generated files with
the property-text oracle of gen.py through (1) the implementation's finder (hook library),
(2) the extracted model, and (3) the real binary in both modes."""
import json, os
from . import common as C
from . import h1, h2, drv, gen, scen

KEYS = ("pos", "line", "col", "ref", "kind", "usable", "name", "probe")


def norm(es):
    if not isinstance(es, list):
        return es
    return [{k: e[k] for k in KEYS} for e in es]


def entries_campaign(rep, rng, n, features, structured_choices=(False, True), rich_p=0.7, label="generated",
                     finding_classifier=None, model_ok=True, n_items=None):
    """Generates n files per style, compares implementation entries with the oracle (violation
    search) and with the model (correspondence).  Returns the generated cases."""
    allcases = []
    dist = {"files": 0, "statements_expected": 0, "with_directive": 0, "with_decoy": 0}
    for structured, configured in [(st, cf) for st in structured_choices for cf in gen.CONFIG_SETS]:
        share = n // 2 if configured is gen.CONFIG_SETS[0] else max(8, n // (2 * (len(gen.CONFIG_SETS) - 1)))
        cases = [gen.cfl_file(rng, structured, rich=rng.random() < rich_p, features=features, n_items=n_items,
                              configured=configured) for _ in range(share)]
        texts = [c[0] for c in cases]
        margs = gen.macros_arg(configured)
        impl = drv.entries_of(texts, structured, margs)
        model = drv.model_entries_of(texts, structured, margs) if model_ok else None
        lines_impl = None
        corr_bad = []
        for i, ((b, exp), got) in enumerate(zip(cases, impl)):
            dist["files"] += 1
            dist["statements_expected"] += len(exp)
            if b"breadlog:" in b.lower():
                dist["with_directive"] += 1
            rep.count((structured, b), nontrivial=len(exp) > 0 or b"!(" in b)
            g = norm(got)
            if g != exp:
                cls = finding_classifier(b, exp, g) if finding_classifier else None
                rep.violation("%s file (structured=%s, macros %s): the finder returns %s, the property text demands %s" % (
                    label, structured, margs, json.dumps(g)[:300], json.dumps(exp)[:300]),
                    {"kind": "entries", "structured": structured, "macros": margs, "file_b64": gen.b64(b),
                     "expected": exp, "got": g}, finding_class=cls)
            if model is not None:
                # the model prints the same line protocol as the hook client
                want = "entries %d" % len(got) if isinstance(got, list) else None
                m = h1.parse_entries(model[i]) if model[i] else None
                if norm(m) != g:
                    corr_bad.append((b, g, norm(m)))
        if corr_bad:
            for b, g, m in corr_bad[:3]:
                rep.not_shown("correspondence finder model (Peg.v + Glue.v on the generated grammar) <-> implementation",
                              json.dumps({"structured": structured, "file": b.decode("utf-8", "replace")[:600],
                                          "implementation": g, "model": m})[:2500])
        rep.extra["correspondence_runs"] = rep.extra.get("correspondence_runs", 0) + (len(cases) if model is not None else 0)
        rep.extra["correspondence_disagreements"] = rep.extra.get("correspondence_disagreements", 0) + len(corr_bad)
        allcases += [(structured, b, exp) for b, exp in cases if configured is gen.CONFIG_SETS[0]]
    d0 = rep.extra.get("input_distribution", {})
    for k, v in dist.items():
        d0[k] = d0.get(k, 0) + v
    rep.extra["input_distribution"] = d0
    if allcases:
        s, b, exp = allcases[len(allcases) // 2]
        rep.sample({"structured": s, "file": b.decode("utf-8", "replace")[:500], "expected_entries": exp})
    return allcases


def binary_campaign(rep, cases, per_tree=6, limit=40):
    """A sample of the generated files through the real binary: what --check reports and what an
    edit run changes must be exactly what the oracle says."""
    C.build_repo()
    scs, metas = [], []
    for structured in (False, True):
        mine = [(b, exp) for s, b, exp in cases if s == structured][:limit * per_tree]
        for i in range(0, len(mine), per_tree):
            chunk = mine[i:i + per_tree]
            fs = [("g%d.rs" % j, b) for j, (b, _) in enumerate(chunk)]
            # a lock far above the generated references, so that the edit run never runs out of IDs
            scs.append(h2.Scenario(fs, "check", structured=structured, macros=gen.MACROS_ARG,
                                   lock=h2.lock_bytes(1000000), name="generated"))
            metas.append({("g%d.rs" % j): exp for j, (_, exp) in enumerate(chunk)})
    oc = drv.run_all(scs)
    oe = drv.run_all([s.with_(mode="edit") for s in scs])
    for s, meta, a, b in zip(scs, metas, oc, oe):
        rep.count(("bin", json.dumps(s.to_json(), sort_keys=True)), nontrivial=True)
        if h2.exit_class(a) not in ("OK", "ERR") or h2.exit_class(b) not in ("OK", "ERR"):
            rep.violation("run on generated files ended with %s / %s" % (h2.exit_class(a), h2.exit_class(b)),
                          {"kind": "scenario", "scenario": s.to_json()})
            continue
        want_missing = sorted((rel, e["line"], e["col"]) for rel, exp in meta.items() for e in exp
                              if e["ref"] is None and e["usable"])
        if sorted(a.missing) != want_missing:
            rep.violation("--check reports %r, the property text demands %r" % (sorted(a.missing)[:6], want_missing[:6]),
                          {"kind": "scenario", "scenario": s.to_json(), "expected_missing": want_missing})
        for rel, exp in meta.items():
            ob, nb = drv.orig_bytes(s, rel), drv.final_bytes(b, rel)
            ins = scen.delete_tokens(ob, nb) if nb is not None else None
            want = sorted(e["pos"] for e in exp if e["ref"] is None and e["usable"])
            if ins is None or sorted(off for off, _ in ins) != want:
                rep.violation("edit inserted at %r in %s, the property text demands %r" % (
                    None if ins is None else sorted(off for off, _ in ins), rel, want),
                    {"kind": "entries", "structured": s.eff_structured(), "file_b64": gen.b64(ob), "expected": exp})
                continue
            # the shape of each token
            bypos = {e["pos"]: e for e in exp}
            for off, tok in ins:
                e = bypos[off]
                shape = e["probe"].replace("7", "%d" % scen.token_id(tok)).encode()
                if tok != shape:
                    rep.violation("token %r inserted at %d, expected shape %r" % (tok, off, shape),
                                  {"kind": "entries", "structured": s.eff_structured(), "file_b64": gen.b64(ob), "expected": exp})
    rep.extra["binary_runs"] = rep.extra.get("binary_runs", 0) + 2 * len(scs)


def corpus_campaign(rep):
    """The regression corpus runs first: the concrete failing inputs kept with the seeded changes
    (seeded/*/replay.json, kind `entries`, with the entries the property text demands)."""
    import glob
    n = 0
    for f in sorted(glob.glob(os.path.join(C.VERIF, "seeded", "*", "replay.json"))):
        try:
            r = json.load(open(f)).get("replay", {})
        except Exception:
            continue
        if r.get("kind") != "entries" or not isinstance(r.get("expected"), list) or "file_b64" not in r:
            continue
        b = gen.unb64(r["file_b64"])
        got = norm(drv.entries_of([b], r["structured"], r.get("macros", gen.MACROS_ARG))[0])
        n += 1
        rep.count(("corpus", f), nontrivial=True)
        if got != r["expected"]:
            rep.violation("regression corpus %s: the finder returns %s, the property text demands %s" % (
                os.path.relpath(f, C.VERIF), json.dumps(got)[:300], json.dumps(r["expected"])[:300]),
                {"kind": "entries", "structured": r["structured"], "macros": r.get("macros", gen.MACROS_ARG),
                 "file_b64": r["file_b64"], "expected": r["expected"], "got": got})
    rep.extra["corpus_inputs"] = n


def replay_entries(r):
    b = gen.unb64(r["file_b64"])
    got = norm(drv.entries_of([b], r["structured"], r.get("macros", gen.MACROS_ARG))[0])
    print(b.decode("utf-8", "replace"))
    print("implementation:", got)
    print("expected      :", r.get("expected"))
    return 0 if got == r.get("expected") else 1
