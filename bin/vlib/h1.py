"""H1: the same cases through the hook library (implementation) and the extracted model."""
import os, subprocess, concurrent.futures
from . import common as C


def hexs(s):
    if isinstance(s, str):
        s = s.encode("utf-8")
    return s.hex()


def _run(binary, lines, timeout):
    inp = "\n".join(lines) + "\n"
    try:
        r = subprocess.run([binary], input=inp, capture_output=True, text=True, timeout=timeout)
        out = r.stdout.splitlines()
    except subprocess.TimeoutExpired as ex:
        out = (ex.stdout or b"").decode("utf-8", "replace").splitlines() if isinstance(ex.stdout, bytes) else (ex.stdout or "").splitlines()
    # pad when the process died or timed out mid-way
    while len(out) < len(lines):
        out.append("%s CRASH" % lines[len(out)].split("\t")[0])
    return out


def run_sharded(binary, lines, shards=C.NCPU, timeout=900):
    if not lines:
        return []
    n = max(1, min(shards, len(lines) // 4 or 1))
    # round-robin so that large cases spread out
    parts = [lines[i::n] for i in range(n)]
    with concurrent.futures.ThreadPoolExecutor(max_workers=n) as ex:
        outs = list(ex.map(lambda p: _run(binary, p, timeout), parts))
    res = [None] * len(lines)
    for i, o in enumerate(outs):
        for j, line in enumerate(o[:len(parts[i])]):
            res[i + j * n] = line
    return res


def both(lines, timeout=900):
    """Returns (impl_answers, model_answers)."""
    a = run_sharded(C.HOOKCLI, lines, timeout=timeout)
    b = run_sharded(C.MODELRUN, lines, timeout=timeout)
    return a, b


def impl_only(lines, timeout=900):
    return run_sharded(C.HOOKCLI, lines, timeout=timeout)


def model_only(lines, timeout=900):
    return run_sharded(C.MODELRUN, lines, timeout=timeout)


def parse_entries(ans):
    """'entries n ; pos line col ref kind usable probehex namehex ; ...' -> list of dicts, or the raw word."""
    parts = ans.split(" ; ")
    head = parts[0].split()
    if len(head) < 2 or not head[1].isdigit():
        return head[1] if len(head) > 1 else "?"
    out = []
    for p in parts[1:]:
        f = p.split()
        out.append({"pos": int(f[0]), "line": int(f[1]), "col": int(f[2]),
                    "ref": None if f[3] == "none" else int(f[3]), "kind": f[4],
                    "usable": f[5] == "1", "probe": bytes.fromhex(f[6]).decode("utf-8"),
                    "name": bytes.fromhex(f[7]).decode("utf-8")})
    return out


DEFAULT_MACROS = "log=info,log=warn,log=error,log=debug,log=trace"


def corpus_files(max_bytes=None):
    """The real-code corpus in the repository: tests/rust_data and Breadlog's own sources."""
    out = []
    for base in ("src", "tests"):
        for root, _, files in os.walk(os.path.join(C.REPO, base)):
            for fn in sorted(files):
                if fn.endswith(".rs"):
                    p = os.path.join(root, fn)
                    try:
                        b = open(p, "rb").read()
                        b.decode("utf-8")
                    except Exception:
                        continue
                    if max_bytes is None or len(b) <= max_bytes:
                        out.append((p, b))
    out.sort()
    return out
