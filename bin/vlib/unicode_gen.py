import importlib.util, os
_spec = importlib.util.spec_from_file_location("gen_unicode", os.path.join(os.path.dirname(os.path.dirname(os.path.abspath(__file__))), "gen_unicode.py"))
_mod = importlib.util.module_from_spec(_spec)
_spec.loader.exec_module(_mod)

def generate(hookcli, out):
    before = None
    try:
        before = open(out).read()
    except FileNotFoundError:
        pass
    _mod.main(hookcli, out)
    return open(out).read() != before
