"""Fault / signal / kill campaigns on the real binary through the interposer, with the model's
prediction for each plan (C02, C07, C08, C18)."""
import json, os
from . import common as C
from . import h2, drv, scen
from .scen import stmt, wrap_fn

ERRNOS = {"EIO": 5, "ENOSPC": 28, "EXDEV": 18, "EACCES": 13}


def base_scenarios(tier, rng, modes=("edit",)):
    """Trees on which every operation index is attacked."""
    out = []
    pad = "// " + "x" * 70 + "\n"
    for structured in (False, True):
        def st(msg, ref=None):
            if structured:
                return stmt(msg=msg, kvref=None if ref is None else str(ref))
            return stmt(msg=msg, ref=ref)
        one = [("a.rs", wrap_fn([st("a")]).encode())]
        two = [("a.rs", wrap_fn([st("a"), st("b", 4), st("c")]).encode()),
               ("b.rs", wrap_fn([st("d")]).encode())]
        three = [("a.rs", wrap_fn([st("a")]).encode()),
                 ("m/b.rs", wrap_fn([st("x", 9)]).encode()),
                 ("z.rs", wrap_fn([st("c"), st("d")]).encode())]
        # larger than async-std's write buffer: several physical writes per logical one
        big = [("big.rs", (pad * 150 + wrap_fn([st("first")]) + pad * 300 + wrap_fn([st("second"), st("third")])
                           + pad * 200).encode()),
               ("b.rs", wrap_fn([st("d")]).encode())]
        for mode in modes:
            for lock in (None, scen.lock_bytes(100)):
                out.append(h2.Scenario(one, mode, structured=structured, lock=lock, name="one"))
                out.append(h2.Scenario(two, mode, structured=structured, lock=lock, name="two"))
                if tier != "quick" or (not structured and lock is None):
                    out.append(h2.Scenario(three, mode, structured=structured, lock=lock, name="three"))
                if tier != "quick" or (structured and lock is not None) or (not structured and lock is None):
                    out.append(h2.Scenario(big, mode, structured=structured, lock=lock, name="big"))
            if tier != "quick":
                out.append(h2.Scenario(two, mode, structured=structured, use_cache=False, name="two/nocache"))
    return out


class Plan:
    def __init__(self, text, kind, op, errno=None):
        self.text, self.kind, self.op, self.errno = text, kind, op, errno


def plans_for(o0, s, kinds, errnos=("EIO", "ENOSPC", "EXDEV", "EACCES"), sigs=(15, 2)):
    order, ops = h2.classify_ops(o0, s)
    plans = []
    for op in ops:
        k, kind = op["k"], op["kind"]
        if "kill" in kinds and kind in ("tmp_create", "tmp_write", "rename", "unlink", "tmp_other", "lock_open",
                                        "lock_write", "lock_other", "src_open"):
            plans.append(Plan("%d=killb" % k, "killb", op))
            plans.append(Plan("%d=killa" % k, "killa", op))
        if "fail" in kinds and kind in ("tmp_create", "tmp_write", "rename"):
            for e in errnos:
                plans.append(Plan("%d=fail:%d" % (k, ERRNOS[e]), "fail", op, e))
        if "failread" in kinds and kind in ("src_open", "src_read"):
            plans.append(Plan("%d=fail:%d" % (k, ERRNOS["EIO"]), "fail", op, "EIO"))
        if "faillock" in kinds and kind in ("lock_open", "lock_write"):
            plans.append(Plan("%d=fail:%d" % (k, ERRNOS["ENOSPC"]), "fail", op, "ENOSPC"))
        if "sig" in kinds and op["op"] != "close":
            for sg in sigs:
                plans.append(Plan("%d=sig:%d" % (k, sg), "sig", op, sg))
        if "sig2" in kinds and op["op"] != "close":
            # the user presses Ctrl-C twice (or a supervisor sends SIGTERM after SIGINT): a second stop signal
            # at one of the next operations must change nothing
            later = [o2["k"] for o2 in ops if o2["k"] > k and o2["op"] != "close"][:3]
            for j, k2 in enumerate(later[:2]):
                sg, sg2 = (sigs[0], sigs[-1]) if j == 0 else (sigs[-1], sigs[-1])
                plans.append(Plan("%d=sig:%d,%d=sig:%d" % (k, sg, k2, sg2), "sig", op, sg))
    return order, ops, plans


def two_pass(s):
    """Does an edit run of this scenario make a first pass?"""
    if s.mode != "edit":
        return False
    if not s.eff_use_cache():
        return True
    return not h2.classify_lock(s.lock).startswith("V")


def model_lines(s, order, plan, n_missing):
    """Candidate model runs for one plan: the observation must agree with (at least) one of them.
    Returns (lines, what_to_compare)."""
    op = plan.op
    kind, fi, ps = op["kind"], op["file"], op["pass"]
    tp = two_pass(s)
    what = ("exit", "src", "lock", "tmp", "total")
    if plan.kind == "fail":
        if kind == "tmp_create":
            return [h2.model_run(s, order, faults={fi: "C"})], what
        if kind == "rename":
            return [h2.model_run(s, order, faults={fi: "R"})], what
        if kind == "tmp_write":
            # which logical write_all / flush sees the error depends on async-std's buffering
            return [h2.model_run(s, order, faults={fi: "W%d" % w}) for w in range(0, 2 * n_missing[fi] + 2)], what
        if kind in ("src_open", "src_read"):
            first = tp and ps == 1
            return [h2.model_run(s, order, rfail1=[fi] if first else (), rfail2=() if first else [fi])], what
        if kind == "lock_open":
            return [h2.model_run(s, order, lockfault="open")], what
        if kind == "lock_write":
            return [h2.model_run(s, order, lockfault="write")], what
    if plan.kind == "sig":
        if kind in ("cfg", "lockstat", "lockread"):
            return None, None                # before the handlers exist: the signal may terminate the process
        if kind in ("disc", "other"):
            return [h2.model_run(s, order, disc="err"),
                    h2.model_run(s, order, stop1=0 if tp else None, stop2=None if tp else 0)], ("exit", "src", "lock", "tmp")
        if kind in ("lock_open", "lock_write", "lock_other"):
            return [h2.model_run(s, order)], what
        if fi is not None:
            first = tp and ps == 1 and kind.startswith("src")
            return [h2.model_run(s, order, stop1=fi + 1 if first else None, stop2=None if first else fi + 1)], what
    return None, None


def tree_state(s, o, order, es_after):
    """Per in-scope file: 'orig' | 'complete' | 'partial' | 'broken' (not original-plus-tokens), plus ids."""
    st, ids = {}, []
    for rel in order:
        ob, nb = drv.orig_bytes(s, rel), drv.final_bytes(o, rel)
        if nb == ob:
            st[rel] = "orig"
            continue
        if nb is None:
            st[rel] = "broken"
            continue
        ins = scen.delete_tokens(ob, nb)
        if ins is None:
            st[rel] = "broken"
            continue
        ids += [scen.token_id(t) for _, t in ins]
        es = es_after.get(rel)
        missing = isinstance(es, list) and any(e["ref"] is None and e["usable"] for e in es)
        st[rel] = "partial" if (missing or not isinstance(es, list)) else "complete"
    return st, ids


def campaign(rep, tier, rng, kinds, judge, model_ok, modes=("edit",), extra_plans=None, sigs=(15, 2),
             errnos=("EIO", "ENOSPC", "EXDEV", "EACCES")):
    """Runs every plan of `kinds` on the base scenarios; judge(s, o0, plan, o, state, ids) -> (problems, finding_class)."""
    C.build_repo()
    scs = base_scenarios(tier, rng, modes)
    base_obs = drv.run_all(scs)
    dist = {}
    total_plans = 0
    corr_lines, corr_meta = [], []
    for s, o0 in zip(scs, base_obs):
        order, ops, plans = plans_for(o0, s, kinds, errnos=errnos, sigs=sigs)
        if extra_plans:
            plans += extra_plans(s, o0, order, ops)
        es0 = drv.entries_of([drv.orig_bytes(s, r) for r in order], s.eff_structured())
        n_missing = {i: sum(1 for e in (es0[i] if isinstance(es0[i], list) else []) if e["ref"] is None and e["usable"])
                     for i in range(len(order))}
        res = drv.pmap(lambda pl: h2.run_impl(s, plan=pl.text, timeout=60), plans)
        total_plans += len(plans)
        # read back what is on disk after each plan
        texts, where = [], []
        for n, o in enumerate(res):
            for rel in order:
                nb = drv.final_bytes(o, rel)
                if nb is not None and nb != drv.orig_bytes(s, rel):
                    texts.append(nb)
                    where.append((n, rel))
        es = drv.entries_of(texts, s.eff_structured()) if texts else []
        after = {}
        for (n, rel), e in zip(where, es):
            after.setdefault(n, {})[rel] = e
        for n, (pl, o) in enumerate(zip(plans, res)):
            state, ids = tree_state(s, o, order, after.get(n, {}))
            key = "%s/%s" % (pl.kind, pl.op["kind"])
            dist[key] = dist.get(key, 0) + 1
            rep.count((json.dumps(s.to_json(), sort_keys=True), pl.text), nontrivial=pl.op["kind"] not in ("cfg", "other"))
            problems, cls = judge(s, o0, order, pl, o, state, ids)
            if problems:
                rep.violation("%s tree, %s at operation %d (%s of file %s): %s" % (
                    s.name, pl.text.split("=")[1], pl.op["k"], pl.op["kind"], pl.op["file"], "; ".join(problems)[:400]),
                    {"kind": "plan", "scenario": s.to_json(), "plan": pl.text, "op": pl.op, "problems": problems},
                    finding_class=cls)
            if model_ok and pl.kind in ("fail", "sig") and s.name != "big":
                lines, what = model_lines(s, order, pl, n_missing)
                if lines:
                    corr_lines.append(lines)
                    corr_meta.append((s, o, order, pl, what))
        if len(rep.cov["samples"]) < 3 and plans:
            pl, o = plans[len(plans) // 2], res[len(plans) // 2]
            rep.sample({"tree": s.name, "mode": s.mode, "structured": s.eff_structured(), "plan": pl.text,
                        "operation": pl.op, "exit": h2.exit_class(o),
                        "state": tree_state(s, o, order, after.get(len(plans) // 2, {}))[0]})
    # correspondence: the observation must agree with one of the candidate model runs
    if corr_lines:
        flat = [l for ls in corr_lines for l in ls]
        ms = h2.run_models(flat)
        pos = 0
        bad = 0
        for ls, (s, o, order, pl, what) in zip(corr_lines, corr_meta):
            cand = ms[pos:pos + len(ls)]
            pos += len(ls)
            diffs = [h2.compare(s, o, order, m, what) for m in cand]
            if all(diffs):
                bad += 1
                rep.not_shown("correspondence driver model <-> breadlog under an injected fault / signal",
                              json.dumps({"scenario": s.to_json(), "plan": pl.text, "op": pl.op,
                                          "differences_to_closest_model_run": min(diffs, key=len)[:4]})[:2500])
        rep.extra["correspondence_runs"] = rep.extra.get("correspondence_runs", 0) + len(corr_lines)
        rep.extra["correspondence_disagreements"] = rep.extra.get("correspondence_disagreements", 0) + bad
    rep.extra["input_distribution"] = dict(dist, scenarios=len(scs), plans=total_plans)
    return scs, base_obs
