"""Helpers shared by the driver-level property checks (C01-C08, C16, C18): running many scenarios
in parallel, fault-free model correspondence, reading references back with the hook library."""
import concurrent.futures, json, os
from . import common as C
from . import h1, h2
from .scen import delete_tokens, token_id


def pmap(fn, items, workers=C.NCPU):
    items = list(items)
    if not items:
        return []
    with concurrent.futures.ThreadPoolExecutor(max_workers=workers) as ex:
        return list(ex.map(fn, items))


def run_all(scenarios, **kw):
    return pmap(lambda s: h2.run_impl(s, **kw), scenarios)


def entries_of(texts, structured, macros=h2.DEFAULT_MACROS):
    """Hook library: entries of each byte string (None when it is not UTF-8)."""
    lines, idx = [], []
    for i, b in enumerate(texts):
        try:
            b.decode("utf-8")
        except UnicodeDecodeError:
            continue
        lines.append("entries\t%d\t%s\t%s" % (1 if structured else 0, macros, b.hex()))
        idx.append(i)
    ans = h1.impl_only(lines) if lines else []
    out = [None] * len(texts)
    for i, a in zip(idx, ans):
        out[i] = h1.parse_entries(a)
    return out


def model_entries_of(texts, structured, macros=h2.DEFAULT_MACROS):
    lines, idx = [], []
    for i, b in enumerate(texts):
        try:
            b.decode("utf-8")
        except UnicodeDecodeError:
            continue
        lines.append("entries\t%d\t%s\t%s" % (1 if structured else 0, macros, b.hex()))
        idx.append(i)
    ans = h1.model_only(lines) if lines else []
    out = [None] * len(texts)
    for i, a in zip(idx, ans):
        out[i] = a
    return out


def corr_fault_free(rep, pairs, what=("exit", "src", "lock", "tmp", "reports", "total"), label="fault-free run"):
    """pairs: [(scenario, obs)].  Runs the model on each with the observed walk order and compares."""
    lines, metas = [], []
    for s, o in pairs:
        order = h2.walk_order(o, s)
        if sorted(order) != sorted(r for r, _ in s.files if r in order) or not order:
            # nothing was opened (failing configuration, empty tree...): the model takes the files as given
            order = order or []
        lines.append(h2.model_run(s, order, disc="ok" if order or not s.files else "ok"))
        metas.append((s, o, order))
    ms = h2.run_models(lines)
    bad = 0
    for (s, o, order), m in zip(metas, ms):
        d = h2.compare(s, o, order, m, what)
        if d:
            bad += 1
            rep.not_shown("correspondence driver model <-> breadlog (%s)" % label,
                          json.dumps({"scenario": s.to_json(), "differences": d[:4]})[:2500])
    rep.extra["correspondence_runs"] = rep.extra.get("correspondence_runs", 0) + len(lines)
    rep.extra["correspondence_disagreements"] = rep.extra.get("correspondence_disagreements", 0) + bad
    return ms


def final_bytes(o, rel):
    kind, data = o.after.get(os.path.join("src", rel), (None, None))
    return data if kind == "file" else None


def orig_bytes(s, rel):
    return dict(s.files).get(rel)


def refs_of_entries(es):
    return [e["ref"] for e in es if isinstance(es, list) and e["ref"] is not None] if isinstance(es, list) else []


def is_mutating(t):
    """Is this trace record a mutating filesystem operation?"""
    if t["k"] is None:
        return True                      # "X" lines are untracked mutating operations
    op = t["op"]
    if op in ("write", "rename", "unlink", "rmdir", "mkdir", "chmod", "fchmod", "truncate", "ftruncate",
              "link", "symlink", "fsync", "utimens", "chown"):
        return True
    if op == "open" and t["rest"] and any(x in t["rest"][0] for x in ("w", "creat", "trunc", "append")):
        return True
    return False
