"""C13 -- structured mode keeps the reference as a well-formed `ref` key-value."""
import json, random
from .. import common as C
from .. import h1, h2, drv, gen, parsechk


def known_findings(rep):
    for text in ('info!(ref = 12 /* c */, k = 1; "m");\n', 'info!(ref = 12 // c\n ; "m");\n'):
        b = text.encode()
        got = parsechk.norm(drv.entries_of([b], True, gen.MACROS_ARG)[0])
        if not (isinstance(got, list) and len(got) == 1 and got[0]["ref"] == 12):
            rep.violation("a comment between the ref value and its delimiter makes the reference unusable: %r -> %r" % (text, got),
                          {"kind": "entries", "structured": True, "file_b64": gen.b64(b), "expected": "ref 12"},
                          finding_class="ref_value_followed_by_comment")


def run(rep, tier, seed, model_ok):
    rng = random.Random(seed)
    parsechk.corpus_campaign(rep)
    n = 900 if tier == "quick" else 9000
    rep.cov["rule"] = ("structured-mode files from the canonical file language with statements over the key-value grammar: "
                       "0-3 other key-values before/after `ref`, all capture modifiers, shorthand keys, string values "
                       "containing ; and , and escaped quotes, integer and non-integer ref values (leading zeros, u32 bound, "
                       "suffixed, string, identifier), with/without target, any layout; expected: insertion point before all "
                       "key-values and after the target, `; ` when alone else `, `; an existing integer ref anywhere is the "
                       "reference; a non-integer ref is unusable (reported as such, never a second ref). Checked on the "
                       "finder, the model, and through --check / edit of the real binary. Non-trivial = file with a statement")
    cases = parsechk.entries_campaign(rep, rng, n, {"stmt", "stmt", "plain", "blank", "directive"}, structured_choices=(True,),
                                      label="structured", model_ok=model_ok)
    cases += parsechk.entries_campaign(rep, rng, n // 3, {"stmt"}, structured_choices=(True,), label="structured statements",
                                       model_ok=model_ok, n_items=2)
    parsechk.binary_campaign(rep, cases, limit=12 if tier == "quick" else 80)
    # unusable references are reported as such by --check and left alone by edit
    C.build_repo()
    s = h2.Scenario([("u.rs", b'fn f() {\n    info!(ref = "x"; "m1");\n    info!(k = 1, ref = seven; "m2");\n    info!("m3");\n}\n')],
                    "check", structured=True, macros=gen.MACROS_ARG)
    a, b = h2.run_impl(s), h2.run_impl(s.with_(mode="edit"))
    rep.count("unusable", nontrivial=True)
    if len(a.unusable) != 2 or len(a.missing) != 1:
        rep.violation("--check: %d unusable, %d missing reported (expected 2 and 1)" % (len(a.unusable), len(a.missing)),
                      {"kind": "scenario", "scenario": s.to_json()})
    nb = drv.final_bytes(b, "u.rs") or b""
    if nb.count(b"ref =") != 3 or b'ref = "x"; "m1"' not in nb or b"ref = seven; \"m2\"" not in nb:
        rep.violation("edit touched a statement with an unusable ref: %r" % nb, {"kind": "scenario", "scenario": s.to_json()})
    known_findings(rep)


def replay(path):
    d = json.load(open(path))
    r = d["replay"]
    if r.get("kind") == "entries":
        return parsechk.replay_entries(r)
    print(json.dumps(d)[:2000])
    return 1
