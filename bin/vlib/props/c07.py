"""C07 -- source files are replaced atomically at every crash and fault point."""
import json, random
from .. import common as C
from .. import h2, drv, faults


def in_place_ops(o, order):
    """Operations that modify a source file other than by renaming a finished file over it."""
    import os
    srcs = {os.path.join(o.proj, "src", rel) for rel in order}
    out = []
    for t in o.trace:
        if t["k"] is None or not t.get("rest"):
            continue
        if t["op"] == "open" and any(x in t["rest"][0] for x in ("w", "trunc", "append")) and " ".join(t["rest"][1:]) in srcs:
            out.append(t)
        elif t["op"] in ("write", "truncate", "ftruncate") and " ".join(t["rest"][1:] if t["op"] == "write" else t["rest"]) in srcs:
            out.append(t)
        elif t["op"] == "unlink" and t["rest"][0] in srcs and t["ret"] == 0:
            out.append(t)
    return out


def judge(s, o0, order, pl, o, state, ids):
    problems = []
    inplace = in_place_ops(o, order)
    if inplace:
        # a source file is being rewritten in place: find the crash point that shows it
        t = inplace[0]
        plan2 = pl.text + ",%d=killa" % t["k"]
        o2 = h2.run_impl(s, plan=plan2)
        broken = [rel for rel in order if drv.final_bytes(o2, rel) != drv.orig_bytes(s, rel)
                  and drv.final_bytes(o2, rel) != drv.final_bytes(o0, rel)]
        problems.append("source file modified in place (%s %s at operation %d under plan %s)%s" % (
            t["op"], " ".join(t["rest"])[-40:], t["k"], pl.text,
            "; killing the process right after that operation (plan %s) leaves %r neither original nor complete: %r" % (
                plan2, broken, (drv.final_bytes(o2, broken[0]) or b"")[:80]) if broken else ""))
    for rel, st in state.items():
        if st not in ("orig", "complete"):
            problems.append("source file %s is %s: neither its original nor its complete updated content (%r)" % (
                rel, st, (drv.final_bytes(o, rel) or b"")[:120]))
    other = h2.other_files_changed(o, order)
    if other:
        problems.append("other project files changed: %r" % other[:4])
    return problems, None


def trace_predicate(rep, scs, base_obs):
    """On the fault-free traces: every write to a temporary file precedes its rename, and the bytes
    written add up to what the source file holds afterwards."""
    for s, o in zip(scs, base_obs):
        written, renamed = {}, {}
        for t in o.trace:
            if t["k"] is None:
                continue
            if t["op"] == "write" and "/tmp/breadlog-" in " ".join(t["rest"]):
                p = " ".join(t["rest"][1:])
                if p in renamed:
                    rep.violation("write to %s after it was renamed over %s" % (p, renamed[p]),
                                  {"kind": "scenario", "scenario": s.to_json()})
                written[p] = written.get(p, 0) + t["ret"]
            if t["op"] == "rename" and t["ret"] == 0:
                renamed[t["rest"][0]] = t["rest"][1]
        for p, dst in renamed.items():
            import os
            size = os.path.getsize(dst) if os.path.exists(dst) else None
            rel = h2.src_rel(o, dst)
            nb = drv.final_bytes(o, rel)
            if nb is not None and written.get(p, 0) != len(nb):
                rep.violation("%d bytes were written to the temporary file of %s before the rename, the new content has %d"
                              % (written.get(p, 0), rel, len(nb)), {"kind": "scenario", "scenario": s.to_json()})


def run(rep, tier, seed, model_ok):
    rng = random.Random(seed)
    rep.cov["rule"] = ("for every tracked filesystem operation of an edit run on trees with 1-3 files (one of them larger "
                       "than the write buffer), both styles, lock absent/present: kill the process immediately before and "
                       "after it, and make it fail with EIO/ENOSPC/EXDEV/EACCES; then every source file must be byte-for-byte "
                       "its original or its complete new content (original plus a token for every statement that lacked "
                       "one) and no other project file may differ. Non-trivial = the operation belongs to a file's "
                       "processing or the lock write")
    scs, base_obs = faults.campaign(rep, tier, rng, ("kill", "fail", "failread", "faillock"), judge, model_ok)
    trace_predicate(rep, scs, base_obs)
    rep.assumptions += ["rename(2) replaces the destination atomically; durability across power loss (fsync) is outside the model",
                        "async-std buffering: the model has logical write_all calls, the kernel sees a re-chunking of them; "
                        "the interposer checks on the real trace that every physical write precedes the rename"]


def replay(path):
    d = json.load(open(path))
    r = d["replay"]
    C.build_repo()
    s = h2.Scenario.from_json(r["scenario"])
    o = h2.run_impl(s, plan=r.get("plan"))
    order = h2.walk_order(h2.run_impl(s), s)
    print("exit:", h2.exit_class(o))
    for rel in order:
        print(rel, "orig" if drv.final_bytes(o, rel) == drv.orig_bytes(s, rel) else drv.final_bytes(o, rel))
    return 1
