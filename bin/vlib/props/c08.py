"""C08 -- an edit run that could not update a file does not report success."""
import json, random
from .. import common as C
from .. import h2, drv, faults


def judge(s, o0, order, pl, o, state, ids):
    problems = []
    cls = h2.exit_class(o)
    if cls == "OK":
        bad = [rel for rel, st in state.items() if st not in ("complete", "orig")]
        # 'orig' is fine only when the file needed nothing
        need = [rel for rel in order if drv.final_bytes(o0, rel) != drv.orig_bytes(s, rel)
                and state.get(rel) == "orig"]
        if pl.op["kind"] in ("src_open", "src_read") and pl.op["file"] is not None:
            # a file that cannot be READ is reported and skipped (C17); that is not a failed update
            need = [rel for rel in need if rel != order[pl.op["file"]]]
        if bad or need:
            problems.append("exit 0 although %r did not receive its references" % (bad + need))
        if o.inserted is not None and o.inserted != len(ids):
            problems.append("reported %d inserted reference(s), %d tokens are in the files" % (o.inserted, len(ids)))
    elif cls not in ("ERR",):
        problems.append("run ended with %s" % cls)
    if o.tmp_left:
        problems.append("temporary files left behind by a run that exited normally: %r" % o.tmp_left[:3])
    return problems, None


def multi(s, o0, order, ops):
    """Double faults and 'every rename fails with EXDEV' (temp dir on another filesystem).  A first
    failure shifts the numbering of the later operations, so the second index is taken from the
    trace of the run with the first fault."""
    out = []
    ren = [op for op in ops if op["kind"] == "rename"]
    first = [op for op in ops if op["kind"] in ("tmp_create", "tmp_write", "rename")]
    if len(ren) >= 1:
        # every rename fails: build the plan incrementally
        plan, guard = "", 0
        while guard < 8:
            guard += 1
            o = h2.run_impl(s, plan=plan or None)
            _, ops2 = h2.classify_ops(o, s)
            nxt = [op for op in ops2 if op["kind"] == "rename" and ("%d=" % op["k"]) not in plan]
            nxt = [op for op in nxt if not any(t["k"] == op["k"] and t["ret"] != 0 for t in o.trace if t["k"])]
            if not nxt:
                break
            plan = (plan + "," if plan else "") + "%d=fail:18" % nxt[0]["k"]
        if plan:
            out.append(faults.Plan(plan, "multi", ren[0], "EXDEV"))
    for a in first[:: max(1, len(first) // 3)][:3]:
        p1 = "%d=fail:28" % a["k"]
        o = h2.run_impl(s, plan=p1)
        _, ops2 = h2.classify_ops(o, s)
        later = [op for op in ops2 if op["k"] > a["k"] and op["kind"] in ("tmp_create", "tmp_write", "rename")
                 and op["file"] != a["file"]]
        if later:
            b = later[len(later) // 2]
            out.append(faults.Plan("%s,%d=fail:5" % (p1, b["k"]), "multi", b, "EIO"))
    return out


def run(rep, tier, seed, model_ok):
    rng = random.Random(seed)
    rep.cov["rule"] = ("edit runs of the real binary with one injected failure (EIO/ENOSPC/EXDEV/EACCES) at every "
                       "temporary-file creation, write and rename, read failures, lock-write failures, and double faults "
                       "incl. 'every rename fails with EXDEV', on trees with 1-3 files; predicate: exit 0 only if every "
                       "file holds all its references and the printed count equals the tokens on disk; no temporary file "
                       "left. Non-trivial = the failing operation belongs to a file's processing")
    faults.campaign(rep, tier, rng, ("fail", "failread", "faillock"), judge, model_ok, extra_plans=multi)
    rep.assumptions += ["an injected failure of unlink(2) itself is not in the property's quantifier and is not explored"]


def replay(path):
    d = json.load(open(path))
    r = d["replay"]
    C.build_repo()
    s = h2.Scenario.from_json(r["scenario"])
    o = h2.run_impl(s, plan=r.get("plan"))
    print("exit:", h2.exit_class(o), "inserted:", o.inserted, "tmp left:", o.tmp_left)
    print(o.out[-800:])
    return 1
