"""C05 -- check mode's verdict is exact and predicts what edit mode does."""
import json, random
from .. import common as C
from .. import h2, drv, scen, gen
from ..scen import stmt, wrap_fn


def scenarios(tier, rng):
    quick = tier == "quick"
    out = []
    for structured in (False, True):
        for fs in scen.small_trees(structured, rng, 20 if quick else 200):
            out.append(h2.Scenario(fs, "check", structured=structured, name="small"))
        for _ in range(25 if quick else 300):
            n = rng.randint(1, 4)
            fs = [("d%d/g%d.rs" % (i % 2, i), gen.cfl_file(rng, structured, rich=rng.random() < 0.6)[0]) for i in range(n)]
            # a lock far above the generated references: the edit run never runs out of IDs
            out.append(h2.Scenario(fs, "check", structured=structured, macros=gen.MACROS_ARG,
                                   lock=scen.lock_bytes(1000000), name="generated"))
        # columns in the presence of multi-byte characters, tabs, CRLF, lone CR
        tricky = ["\tinfo!(\"t\");", "/* ü☃ */ info!(\"u\");", "let s = \"\U0001F600\"; warn!(\"e\");",
                  "a();\r\n\tb(); error!(\"crlf\");\r\n", "x();\rinfo!(\"lonecr\");", "  info!(\"ls\");",
                  "info!(\n\n   \"multi\"\n);", "ü(); info!(ref = \"bad\"; \"unusable\");",
                  "info!(target: \"net\",\n\"column one\");", "info!(target: \"net\",\r\n\"column one crlf\");",
                  "info!(\n\"message in column one\");", "info!(k = 1,\nref = 5; \"ref value in column one\");",
                  "info!(\nk = v; \"kv in column one\");", "\ninfo!(\"statement in column one\");"]
        for t in tricky:
            out.append(h2.Scenario([("t.rs", t.encode("utf-8"))], "check", structured=structured, name="tricky"))
        out.append(h2.Scenario([("ok.rs", wrap_fn([stmt(msg="a", ref=1)]).encode()), ("bad.rs", b"\xff info!(\"x\");")],
                               "check", structured=structured, name="unreadable"))
        # an unreadable file at every place of the walk order among files that need references, with and
        # without a lock (the first pass runs only without one)
        names = ["a0.rs", "b1.rs", "m/c2.rs", "m/d3.rs", "z4.rs"]
        for bad in range(len(names)):
            for lock in (None, scen.lock_bytes(50)):
                fs = []
                for i, nme in enumerate(names):
                    if i == bad:
                        fs.append((nme, b"// caf\xe9\nfn f() { info!(\"latin-1\"); }\n"))
                    else:
                        fs.append((nme, wrap_fn([stmt(msg="m%d" % i), stmt(msg="n%d" % i, ref=(i + 1) if not structured else None,
                                                                            kvref=None if not structured else str(i + 1))]).encode()))
                out.append(h2.Scenario(fs, "check", structured=structured, lock=lock, name="unreadable-among"))
    return out


def judge(s, oc, oe):
    """oc: check run, oe: edit run on the same tree."""
    problems = []
    order = h2.walk_order(oc, s)
    if not order:
        return problems
    ins = {}
    n_tokens = 0
    if h2.exit_class(oe) == "ERR" and "No reference IDs left to assign" in oe.out:
        return []
    for rel in order:
        ob, nb = drv.orig_bytes(s, rel), drv.final_bytes(oe, rel)
        d = scen.delete_tokens(ob, nb) if nb is not None else None
        if d is None:
            problems.append("edit did not turn %s into original-plus-tokens" % rel)
            continue
        ins[rel] = [off for off, _ in d]
        n_tokens += len(d)
    if problems:
        return problems
    cc, ce = h2.exit_class(oc), h2.exit_class(oe)
    if cc not in ("OK", "ERR"):
        return ["check ended with %s" % cc]
    if ce == "ERR" and "No reference IDs left to assign" in oe.out:
        return []                      # the ID range is exhausted (C01): there is no edit to predict
    if ce != "OK":
        return ["edit on the same tree ended with %s" % ce]
    if (cc == "ERR") != (n_tokens > 0):
        problems.append("check exit %s but the edit run inserts %d reference(s)" % (cc, n_tokens))
    if oc.total is not None and oc.total != n_tokens:
        problems.append("check reports a total of %d, edit inserts %d" % (oc.total, n_tokens))
    if oe.inserted is not None and oe.inserted != n_tokens:
        problems.append("edit prints %d inserted reference(s), %d tokens are in the files" % (oe.inserted, n_tokens))
    if n_tokens == 0 and oe.inserted not in (None, 0):
        problems.append("edit prints %r inserted but nothing changed" % oe.inserted)
    rep_offsets = {}
    for rel, line, col in oc.missing:
        off = scen.line_col_to_offset(drv.orig_bytes(s, rel) or b"", line, col)
        if off is None:
            problems.append("reported location %s:%d:%d does not exist in the file" % (rel, line, col))
        rep_offsets.setdefault(rel, []).append(off)
    for rel in order:
        if sorted(rep_offsets.get(rel, [])) != sorted(ins.get(rel, [])):
            problems.append("%s: check reports byte offsets %r (from its line/column), edit inserts at %r" % (
                rel, sorted(rep_offsets.get(rel, [])), sorted(ins.get(rel, []))))
    return problems


def run(rep, tier, seed, model_ok):
    rng = random.Random(seed)
    C.build_repo()
    scs = scenarios(tier, rng)
    rep.cov["rule"] = ("the real binary in --check mode and in edit mode on the same tree (small-scope trees, generated "
                       "canonical files with layouts/directives/decoys, multi-byte / tab / CRLF / lone-CR cases, an "
                       "unreadable file next to a readable one), both styles: check exits non-zero iff edit inserts; every "
                       "reported (file, line, column) -- converted to a byte offset independently, counting characters -- is "
                       "an insertion offset of the edit run and vice versa; totals agree with the tokens on disk. "
                       "Non-trivial = at least one reference missing")
    oc = drv.run_all(scs)
    oe = drv.run_all([s.with_(mode="edit") for s in scs])
    dist = {"with_missing": 0, "complete": 0}
    for s, a, b in zip(scs, oc, oe):
        p = judge(s, a, b)
        nt = (b.inserted or 0) > 0
        dist["with_missing" if nt else "complete"] += 1
        rep.count(json.dumps(s.to_json(), sort_keys=True), nontrivial=nt)
        if p:
            rep.violation("; ".join(p)[:600], {"kind": "scenario", "scenario": s.to_json(), "problems": p})
    rep.sample({"scenario": scs[-3].to_json(), "check_reports": oc[-3].missing, "check_exit": h2.exit_class(oc[-3])})
    rep.sample({"file": scs[len(scs) // 2].files[0][1].decode("utf-8", "replace")[:300], "reports": oc[len(scs) // 2].missing})
    rep.extra["input_distribution"] = dict(dist, scenarios=len(scs))
    if model_ok:
        drv.corr_fault_free(rep, list(zip(scs, oc)), label="check run")
        drv.corr_fault_free(rep, list(zip([s.with_(mode="edit") for s in scs], oe)), label="edit run")


def replay(path):
    d = json.load(open(path))
    r = d["replay"]
    C.build_repo()
    s = h2.Scenario.from_json(r["scenario"])
    a, b = h2.run_impl(s.with_(mode="check")), h2.run_impl(s.with_(mode="edit"))
    p = judge(s, a, b)
    print("check:", h2.exit_class(a), a.missing, "edit inserted:", b.inserted, "problems:", p)
    return 1 if p else 0
