"""C18 -- SIGINT and SIGTERM stop a run cleanly."""
import json, random
from .. import common as C
from .. import h2, drv, faults, scen


def judge(s, o0, order, pl, o, state, ids):
    problems = []
    kind = pl.op["kind"]
    cls = h2.exit_class(o)
    startup = kind in ("cfg", "lockstat", "lockread")
    if cls.startswith("SIG"):
        if not startup:
            problems.append("the process was killed by signal %s instead of stopping by itself" % cls[3:])
        elif any(st != "orig" for st in state.values()) or h2.classify_lock(o.lock) != h2.classify_lock(s.lock):
            problems.append("killed during start-up AND something was modified")
        return problems, None
    if cls in ("PANIC", "HANG"):
        problems.append("run ended with %s" % cls)
    for rel, st in state.items():
        if st not in ("orig", "complete"):
            problems.append("source file %s is %s after the interrupted run" % (rel, st))
    # what was left to do when the run ended?
    left = [rel for rel in order if drv.final_bytes(o0, rel) != drv.orig_bytes(s, rel) and state.get(rel) == "orig"]
    if s.mode == "check":
        interrupted = not startup and kind not in ("lock_open", "lock_write", "lock_other")
        if cls == "OK" and interrupted:
            problems.append("an interrupted --check exited 0")
        if any(st != "orig" for st in state.values()):
            problems.append("check mode modified a file")
    else:
        if cls == "OK" and left:
            problems.append("exit 0 although %r still lack references" % left)
        if s.eff_use_cache() and ids:
            lk = h2.classify_lock(o.lock)
            if not lk.startswith("V") or int(lk[1:]) <= max(ids):
                problems.append("IDs up to %d were written but the lock file says %s" % (max(ids), lk))
    if o.tmp_left:
        problems.append("temporary files left: %r" % o.tmp_left[:2])
    return problems, None


def run(rep, tier, seed, model_ok):
    rng = random.Random(seed)
    rep.cov["rule"] = ("SIGTERM and SIGINT raised (by the interposer, in the calling thread) immediately before every "
                       "tracked filesystem operation of check and edit runs on trees with 1-3 files, both styles, lock "
                       "absent/present: the process must end by itself, exit 0 only if nothing was left to do (never for "
                       "an interrupted check), leave every source file original or complete, and leave a lock above every "
                       "ID written; signals during start-up (before the handlers exist) may kill the process but then "
                       "nothing may have changed. Non-trivial = signal delivered from discovery on")
    faults.campaign(rep, tier, rng, ("sig", "sig2"), judge, model_ok, modes=("edit", "check"))
    rep.assumptions += ["signal delivery and async-signal-safety are signal-hook's and the kernel's; the signal is "
                        "raised synchronously at operation boundaries, not at arbitrary instructions"]


def replay(path):
    d = json.load(open(path))
    r = d["replay"]
    C.build_repo()
    s = h2.Scenario.from_json(r["scenario"])
    o = h2.run_impl(s, plan=r.get("plan"))
    print("exit:", h2.exit_class(o), "lock:", h2.classify_lock(o.lock))
    print(o.out[-600:])
    return 1
