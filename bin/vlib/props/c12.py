"""C12 -- a reference counts as present exactly when the message starts with a valid token."""
import itertools, json, random, re
from .. import common as C
from .. import h1

U32 = 4294967295
TOKEN_RE = re.compile(r"\[ref: ([0-9]{1,10})\]")       # [0-9] is ASCII-only in Python str patterns


def oracle(s):
    """The rule exactly as the property states it."""
    m = TOKEN_RE.match(s)
    if not m:
        return None
    v = int(m.group(1))
    return v if v <= U32 else None


PIECES = ["[ref: ", "[ref:", "[", "ref", ":", " ", "]", "0", "9", "1", "٣", "4294967295",
          "4294967296", "x", "[REF: ", "+", "00"]
ALPHABET = ["[", "r", "e", "f", ":", " ", "]", "0", "9", "٣"]


def near_misses():
    out = []
    for num in ["", "0", "1", "7", "00", "007", "123456789", "1234567890", "12345678901",
                "4294967295", "4294967296", "04294967295", "9999999999", "99999999999",
                "+1", "-1", "1 ", " 1", "1.0", "١", "1٣", "0x10", "१२"]:
        for pre in ["[ref: ", "[ref:", "[ref:  ", "[Ref: ", "[ ref: ", " [ref: ", "\t[ref: ", "[ref : ",
                    "(ref: ", "ref: ", "[[ref: ", "x[ref: ", " [ref: "]:
            for post in ["]", "] rest", "", " ]", "]]", ")", "}] "]:
                out.append(pre + num + post)
    return out


def strings(tier, rng):
    seen = set()
    k = 4 if tier == "quick" else 5
    for n in range(0, k + 1):
        for combo in itertools.product(PIECES, repeat=n):
            # keep the product affordable: only sequences that start with a bracket-ish piece or are short
            if n >= 4 and combo[0] not in ("[ref: ", "[ref:", "[", " ", "[REF: "):
                continue
            s = "".join(combo)
            if s not in seen:
                seen.add(s)
                yield s
    kk = 4 if tier == "quick" else 5
    for n in range(0, kk + 1):
        for combo in itertools.product(ALPHABET, repeat=n):
            s = "".join(combo)
            if s not in seen:
                seen.add(s)
                yield s
    for s in near_misses():
        if s not in seen:
            seen.add(s)
            yield s
    # tokens Breadlog itself would insert, at boundary and random values
    for v in [0, 1, 9, 10, 99, 100, 4294967294, 4294967295] + [rng.randrange(0, U32 + 1) for _ in range(200)]:
        for rest in ["", "x", "] [ref: 3] ", "9"]:
            s = "[ref: %d] %s" % (v, rest)
            if s not in seen:
                seen.add(s)
                yield s


def documented_pattern():
    """The pattern the translator found in the user guide (recorded in Gen/Regexes.v)."""
    import os
    for line in open(os.path.join(C.VERIF, "coq", "theories", "Gen", "Regexes.v"), encoding="utf-8"):
        if line.startswith("(* documented extraction regex: ") and line.rstrip().endswith(" *)"):
            return line.rstrip()[len("(* documented extraction regex: "):-3]
    return None


def doc_number(ans, s):
    """Number read by the documented regex when its match starts at offset 0 (else None)."""
    f = ans.split()
    if len(f) != 5 or f[1] != "0" or not f[3].isdigit():
        return None
    t = s[int(f[3]):int(f[4])]
    return int(t) if t.isdigit() and t.isascii() and int(t) <= U32 else None


def msg_ok_for_literal(s):
    return '"' not in s and "\\" not in s and "\n" not in s


def run(rep, tier, seed, model_ok):
    rng = random.Random(seed)
    rep.cov["rule"] = ("extract_reference on (a) every concatenation of <=%d pieces of %r, (b) every string of "
                       "length <=%d over %r, (c) near-misses at the numeric boundaries, (d) inserted tokens; "
                       "non-trivial = starts with '[' (can interact with the token syntax); then the same strings "
                       "as message literals through find(); distinct by string"
                       % (4 if tier == "quick" else 5, PIECES, 4 if tier == "quick" else 5, ALPHABET))
    all_s = list(strings(tier, rng))
    lines = ["extract\t%s" % h1.hexs(s) for s in all_s]
    impl = h1.impl_only(lines)
    model = h1.model_only(lines) if model_ok else None
    dist = {"match": 0, "nomatch": 0}
    corr_bad = []
    for i, s in enumerate(all_s):
        want = oracle(s)
        got = impl[i].split()[1] if len(impl[i].split()) > 1 else "?"
        gotv = None if got == "none" else (int(got) if got.isdigit() else got)
        rep.count(("x", s), nontrivial=s.startswith("[") or s[:1].isspace())
        dist["match" if want is not None else "nomatch"] += 1
        if gotv != want:
            rep.violation("extract_reference(%r) = %r but the rule says %r" % (s, gotv, want),
                          {"kind": "extract", "string": s, "impl": got, "expected": want})
        if model is not None and model[i] != impl[i]:
            corr_bad.append((s, impl[i], model[i]))
    # the documented regex, run by the regex crate itself and by the model (unanchored search):
    # ties Model/Regex.v's `captures re_documented` (theorems C12_documented_regex*) to the library
    pat = documented_pattern()
    if pat is None:
        rep.not_shown("documented regex: pattern not found in Gen/Regexes.v", "translator output has no documented regex")
    else:
        dlines = ["docregex\t%s\t%s" % (h1.hexs(pat), h1.hexs(s)) for s in all_s]
        dimpl = h1.impl_only(dlines)
        dmodel = h1.model_only(dlines) if model_ok else None
        ddist = {"match_at_0": 0, "match_later": 0, "none": 0}
        for i, s in enumerate(all_s):
            f = dimpl[i].split()
            ddist["none" if len(f) < 3 else ("match_at_0" if f[1] == "0" else "match_later")] += 1
            tok = TOKEN_RE.match(s)
            if tok and s.startswith("[ref: %d]" % int(tok.group(1))) and int(tok.group(1)) <= U32:
                # a token as Breadlog renders it: the documented regex must read the same number at offset 0
                if doc_number(dimpl[i], s) != int(tok.group(1)):
                    rep.violation("documented regex %r on the inserted token %r answers %r, not the number at offset 0"
                                  % (pat, s, dimpl[i]), {"kind": "docregex", "pattern": pat, "string": s,
                                                         "impl": dimpl[i], "expected": int(tok.group(1))})
            if dmodel is not None and dmodel[i] != dimpl[i]:
                corr_bad.append((s, dimpl[i], dmodel[i]))
        rep.extra["documented_regex_distribution"] = ddist
        rep.extra["documented_regex_pattern"] = pat
    rep.sample({"extract": all_s[len(all_s) // 2], "expected": oracle(all_s[len(all_s) // 2])})
    rep.sample({"extract": "[ref: 4294967295] x", "expected": U32})

    # the same rule applied to the START OF THE MESSAGE LITERAL by the statement finder
    msgs = [s for s in all_s if msg_ok_for_literal(s)]
    if tier == "quick":
        interesting = [s for s in msgs if oracle(s) is not None or oracle(s.strip()) is not None or "[ref: " in s]
        rest = [s for s in msgs if s not in set(interesting)]
        msgs = interesting + rng.sample(rest, min(len(rest), 4000))
    elines = ["entries\t0\tlog=info\t%s" % h1.hexs('fn f() { info!("%s"); }\n' % s) for s in msgs]
    eimpl = h1.impl_only(elines)
    emodel = h1.model_only(elines) if model_ok else None
    for i, s in enumerate(msgs):
        es = h1.parse_entries(eimpl[i])
        rep.count(("e", s), nontrivial="[ref" in s)
        want = oracle(s)
        if not isinstance(es, list) or len(es) != 1:
            # not recognised at all / panic: other properties (C10, C17) judge that; only report panics
            if es == "PANIC":
                rep.violation("find() panics on message %r" % s, {"kind": "entries", "message": s})
            continue
        if es[0]["ref"] != want:
            cls = None
            if s[:1] != s.lstrip()[:1] or s.startswith("//") or s.startswith("/*"):
                cls = "msg_leading_skip"
            rep.violation("message literal %r: finder reads reference %r, the rule says %r" % (s, es[0]["ref"], want),
                          {"kind": "entries", "message": s, "file": 'fn f() { info!("%s"); }\n' % s,
                           "impl_ref": es[0]["ref"], "expected": want}, finding_class=cls)
        if emodel is not None and emodel[i] != eimpl[i]:
            corr_bad.append((s, eimpl[i], emodel[i]))
    rep.sample({"message": msgs[0] if msgs else "", "as_file": 'fn f() { info!("...") }'})
    rep.extra["input_distribution"] = dict(dist, strings=len(all_s), as_message_literals=len(msgs))
    rep.extra["traces_validated_against_impl"] = len(all_s) + len(msgs)
    if corr_bad:
        rep.not_shown("correspondence extract_reference/find: model and implementation differ",
                      json.dumps([{"input": a, "impl": b, "model": c} for a, b, c in corr_bad[:5]], ensure_ascii=False))
    rep.extra["correspondence_disagreements"] = len(corr_bad)
    rep.assumptions += ["regex crate semantics are modelled by Model/Regex.v (leftmost-first backtracking), tied by this correspondence",
                        "str::parse::<u32> modelled by Text.parse_u32"]


def replay(path):
    d = json.load(open(path))
    r = d.get("replay", {})
    if r.get("kind") == "extract":
        out = h1.impl_only(["extract\t%s" % h1.hexs(r["string"])])
        print("implementation:", out[0], " expected by the rule:", oracle(r["string"]))
        return 0 if (out[0].split()[1] == ("none" if oracle(r["string"]) is None else str(oracle(r["string"])))) else 1
    if r.get("kind") == "docregex":
        out = h1.impl_only(["docregex\t%s\t%s" % (h1.hexs(r["pattern"]), h1.hexs(r["string"]))])
        print("regex crate:", out[0], " expected number at offset 0:", r.get("expected"))
        return 0 if doc_number(out[0], r["string"]) == r.get("expected") else 1
    if r.get("kind") == "entries":
        out = h1.impl_only(["entries\t0\tlog=info\t%s" % h1.hexs(r["file"])])
        print("implementation:", out[0], " expected reference:", r.get("expected"))
        es = h1.parse_entries(out[0])
        return 0 if (isinstance(es, list) and len(es) == 1 and es[0]["ref"] == r.get("expected")) else 1
    print(json.dumps(d, indent=1))
    return 1
