"""C02 -- an ID once assigned is never assigned again (lock-file invariant)."""
import json, os, random, re
from .. import common as C
from .. import h2, drv, scen, faults
from ..scen import stmt, wrap_fn

STMT_RE = re.compile(rb"(?:\[ref: ([0-9]+)\] ([a-z0-9_]+))|(?:ref = ([0-9]+)[;,] [^\"]*\"([a-z0-9_]+))")


def ids_in(files):
    """{id: set of statement names carrying it} from the message names (unique per statement)."""
    out = {}
    for rel, b in files:
        for m in STMT_RE.finditer(b):
            i = int(m.group(1) or m.group(3))
            name = (m.group(2) or m.group(4)).decode()
            out.setdefault(i, set()).add(name)
    return out


class Hist:
    def __init__(self, structured, rng):
        self.structured, self.rng = structured, rng
        self.n = 0
        self.files = {}
        # the project starts without a lock, or with one an older version / another platform / a hand merge left:
        # valid, but longer than what the tool writes today
        self.lock = rng.choice([None, None, scen.lock_variants("valid_doc100"), scen.lock_variants("valid_crlf100"),
                                scen.lock_variants("valid_tail100"), scen.lock_variants("valid0")])
        self.ghost = {}          # id -> statement name it was first written for
        self.events = []
        for f in ("a.rs", "b.rs"):
            self.files[f] = [self.new_stmt() for _ in range(rng.randint(1, 2))]

    def new_stmt(self):
        self.n += 1
        return ("s%d" % self.n, None)      # (unique message name, id or None)

    def render(self):
        out = []
        for rel, sts in sorted(self.files.items()):
            lines = []
            for name, i in sts:
                if self.structured:
                    lines.append(stmt(msg=name, kvref=None if i is None else str(i)))
                else:
                    lines.append(stmt(msg=name, ref=i))
            out.append((rel, wrap_fn(lines).encode()))
        return out

    def absorb(self, o, order):
        """Reads the tree back after a run: which statement now carries which ID."""
        newly = []
        for rel in list(self.files):
            nb = drv.final_bytes(o, rel)
            if nb is None:
                continue
            found = {}
            for m in STMT_RE.finditer(nb):
                found[(m.group(2) or m.group(4)).decode()] = int(m.group(1) or m.group(3))
            sts = []
            for name, i in self.files[rel]:
                j = found.get(name, None)
                if i is None and j is not None:
                    newly.append((j, name))
                sts.append((name, j if j is not None else i))
            self.files[rel] = sts
        self.lock = o.lock
        return newly

    def dev_edit(self):
        rng = self.rng
        kind = rng.choice(["add", "add", "delete_highest", "delete_any", "add_file", "delete_file"])
        allst = [(rel, k, st) for rel, sts in self.files.items() for k, st in enumerate(sts)]
        if kind == "add" and self.files:
            rel = rng.choice(sorted(self.files))
            self.files[rel].insert(rng.randint(0, len(self.files[rel])), self.new_stmt())
        elif kind == "delete_highest":
            withid = [(st[1], rel, k) for rel, k, st in allst if st[1] is not None]
            if withid:
                _, rel, k = max(withid)
                del self.files[rel][k]
        elif kind == "delete_any" and allst:
            rel, k, _ = rng.choice(allst)
            del self.files[rel][k]
        elif kind == "add_file":
            self.files["n%d.rs" % self.n] = [self.new_stmt()]
        elif kind == "delete_file" and len(self.files) > 1:
            del self.files[rng.choice(sorted(self.files))]
        return kind


def run_history(rep, structured, rng, steps, allow_kill, model_ok, corr):
    C.build_repo()
    h = Hist(structured, rng)
    log = []
    for step in range(steps):
        if rng.random() < 0.45:
            log.append({"dev": h.dev_edit()})
            continue
        s = h2.Scenario(h.render(), "edit", structured=structured, lock=h.lock)
        kinds = ["none", "none", "sig", "fail"] + (["kill", "faillock"] if allow_kill else [])
        kind = rng.choice(kinds)
        plan = None
        pl = None
        if kind != "none":
            o0 = h2.run_impl(s)
            order, ops, plans = faults.plans_for(o0, s, {"sig": ("sig", "sig2"), "fail": ("fail",), "kill": ("kill",),
                                                         "faillock": ("faillock",)}[kind])
            plans = [p for p in plans if p.op["kind"] not in ("cfg", "lockstat", "lockread", "disc", "other", "src_open")
                     or kind == "sig" and p.op["kind"] == "src_open"]
            if plans:
                pl = rng.choice(plans)
                plan = pl.text
        o = h2.run_impl(s, plan=plan)
        order = h2.walk_order(o, s)
        newly = h.absorb(o, order)
        killed = h2.exit_class(o).startswith("SIG")
        lock_failed = pl is not None and pl.op["kind"] in ("lock_open", "lock_write")
        log.append({"run": plan or "no fault", "exit": h2.exit_class(o), "new_ids": newly, "lock": h2.classify_lock(o.lock)})
        in_window = killed or lock_failed
        for i, name in newly:
            if i in h.ghost and h.ghost[i] != name:
                rep.violation("ID %d was written for statement %s and is now written for %s" % (i, h.ghost[i], name),
                              {"kind": "history", "structured": structured, "log": log},
                              finding_class="lock_window" if h.in_window_seen else None)
            h.ghost.setdefault(i, name)
        if in_window:
            h.in_window_seen = True
        lk = h2.classify_lock(o.lock)
        if h.ghost and not in_window and not getattr(h, "in_window_seen", False):
            if not lk.startswith("V") or int(lk[1:]) <= max(h.ghost):
                rep.violation("after a run that ended by itself (%s, exit %s) the lock says %s but ID %d has been written" % (
                    plan or "no fault", h2.exit_class(o), lk, max(h.ghost)),
                    {"kind": "history", "structured": structured, "log": log})
        if model_ok and kind in ("none", "sig") and pl is None or (model_ok and pl is not None and pl.kind == "sig"):
            if pl is None:
                corr.append(([h2.model_run(s, order)], (s, o, order, None, ("exit", "src", "lock", "tmp", "total"))))
            else:
                lines, what = faults.model_lines(s, order, pl, {})
                if lines:
                    corr.append((lines, (s, o, order, pl, what)))
    return log


Hist.in_window_seen = False


def known_finding_demo(rep):
    """F14: the lock is advanced after the files are replaced; a kill in between leaves it behind."""
    s = h2.Scenario([("a.rs", wrap_fn([stmt(msg="s1")]).encode())], "edit", lock=scen.lock_bytes(5))
    o0 = h2.run_impl(s)
    order, ops, plans = faults.plans_for(o0, s, ("kill",))
    ren = [p for p in plans if p.op["kind"] == "rename" and p.kind == "killa"]
    if not ren:
        return
    o = h2.run_impl(s, plan=ren[0].text)
    nb = drv.final_bytes(o, "a.rs") or b""
    if b"[ref: 5] s1" in nb and h2.classify_lock(o.lock) == "V5":
        s2 = h2.Scenario([("a.rs", wrap_fn([stmt(msg="s2")]).encode())], "edit", lock=o.lock)   # developer replaced the statement
        o2 = h2.run_impl(s2)
        if b"[ref: 5] s2" in (drv.final_bytes(o2, "a.rs") or b""):
            rep.violation("killed between rename and lock write: ID 5 on disk, lock still 5; after the statement is "
                          "replaced the next run assigns 5 again", {"kind": "f14"}, finding_class="lock_window")


def run(rep, tier, seed, model_ok):
    rng = random.Random(seed)
    rep.cov["rule"] = ("random histories over one project: developer edits (add / delete statements incl. the highest-numbered "
                       "one, add / delete files) interleaved with edit runs of the real binary, each run fault-free or with "
                       "a stop signal or an I/O failure at a random operation (thorough: also kills and lock-write failures, "
                       "which are the known finding F14); the harness keeps the ghost map ID -> statement and requires that "
                       "no ID is ever written for two statements and that after every run that ended by itself the lock is "
                       "above every ID written. Non-trivial = history in which at least two runs inserted")
    corr = []
    n_hist = 24 if tier == "quick" else 200
    steps = 8 if tier == "quick" else 14
    dist = {"runs": 0, "dev": 0}
    seeds = [rng.randrange(1 << 30) for _ in range(n_hist)]

    def one(k):
        r = random.Random(seeds[k])
        return run_history(rep, bool(k % 2), r, steps, allow_kill=(tier != "quick" and k % 3 == 0), model_ok=model_ok, corr=corr)
    logs = drv.pmap(one, range(n_hist), workers=8)
    for k, log in enumerate(logs):
        ins = sum(1 for e in log if e.get("new_ids"))
        dist["runs"] += sum(1 for e in log if "run" in e)
        dist["dev"] += sum(1 for e in log if "dev" in e)
        rep.count(("hist", seeds[k]), nontrivial=ins >= 2)
    rep.sample({"history": logs[0]})
    rep.sample({"history": logs[-1]})
    known_finding_demo(rep)
    rep.extra["input_distribution"] = dict(dist, histories=n_hist, steps_each=steps)
    if corr:
        flat = [l for ls, _ in corr for l in ls]
        ms = h2.run_models(flat)
        pos, bad = 0, 0
        for ls, (s, o, order, pl, what) in corr:
            cand = ms[pos:pos + len(ls)]
            pos += len(ls)
            diffs = [h2.compare(s, o, order, m, what) for m in cand]
            if all(diffs):
                bad += 1
                rep.not_shown("correspondence driver model <-> breadlog inside a history",
                              json.dumps({"scenario": s.to_json(), "plan": pl.text if pl else None,
                                          "differences": min(diffs, key=len)[:4]})[:2500])
        rep.extra["correspondence_runs"] = len(corr)
        rep.extra["correspondence_disagreements"] = bad
    rep.assumptions += ["the developer keeps the lock file (property hypothesis); statements are identified by a unique message name"]


def replay(path):
    d = json.load(open(path))
    print(json.dumps(d["replay"], indent=1)[:3000])
    return 1
