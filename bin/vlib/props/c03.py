"""C03 -- edit mode only inserts reference tokens; existing references never change."""
import json, os, random
from .. import common as C
from .. import h1, h2, drv, scen, gen


def judge_file(orig, new, es_before, structured):
    """Property predicate for one file, on the bytes the real binary produced."""
    if new == orig:
        return []
    ins = scen.delete_tokens(orig, new)
    if ins is None:
        return ["the new content is not the original with reference tokens inserted"]
    problems = []
    if isinstance(es_before, list):
        allowed = {e["pos"] for e in es_before if e["ref"] is None and e["usable"]}
        for off, tok in ins:
            if off not in allowed:
                problems.append("token %r inserted at offset %d, which is not the position of a statement lacking a "
                                "reference (%r)" % (tok, off, sorted(allowed)))
        if len(ins) != len(allowed):
            problems.append("%d tokens inserted, %d statements lacked a reference" % (len(ins), len(allowed)))
    return problems


def run(rep, tier, seed, model_ok):
    rng = random.Random(seed)
    C.build_repo()
    quick = tier == "quick"
    scs = []
    # (a) real code: the repository's own corpus as one tree per directory chunk
    corpus = h1.corpus_files(max_bytes=120000)
    rng.shuffle(corpus)
    corpus = corpus[:60 if quick else len(corpus)]
    for structured in (False, True):
        chunk = 12
        for i in range(0, len(corpus), chunk):
            fs = [("c%d/%s" % (j, os.path.basename(p)), b) for j, (p, b) in enumerate(corpus[i:i + chunk])]
            scs.append(h2.Scenario(fs, "edit", structured=structured, name="corpus"))
    # (b) generated canonical statements, layouts, decoys
    oracle = {}          # (structured, bytes) -> insertion offsets demanded by the property text (gen.py's oracle)
    for structured in (False, True):
        cases = [gen.cfl_file(rng, structured, rich=rng.random() < 0.7) for _ in range(60 if quick else 400)]
        for b, exp in cases:
            oracle[(structured, b)] = sorted(e["pos"] for e in exp if e["ref"] is None and e["usable"])
        files = [b for b, _ in cases]
        for i in range(0, len(files), 10):
            scs.append(h2.Scenario([("g%d.rs" % j, b) for j, b in enumerate(files[i:i + 10])], "edit",
                                   structured=structured, macros=gen.MACROS_ARG, lock=h2.lock_bytes(1000000),
                                   name="generated"))
    # (b2) deterministic: statements that already carry a reference in every place one can stand
    for structured in (False, True):
        b, want = gen.referenced_matrix(structured)
        oracle[(structured, b)] = want
        scs.append(h2.Scenario([("referenced.rs", b)], "edit", structured=structured, macros=gen.MACROS_ARG,
                               lock=h2.lock_bytes(1000000), name="generated"))
    # (c) malformed / mutated / multi-byte / CRLF / large
    mal = gen.malformed_files(rng, 60 if quick else 500)
    for structured in (False, True):
        for i in range(0, len(mal), 10):
            scs.append(h2.Scenario([("m%d.rs" % j, b) for j, b in enumerate(mal[i:i + 10])], "edit",
                                   structured=structured, name="malformed"))
    big = gen.big_file(rng, 3000 if quick else 20000)
    scs.append(h2.Scenario([("big.rs", big)], "edit", structured=False, name="big"))
    scs.append(h2.Scenario([("big.rs", big), ("empty.rs", b""), ("bin.rs", b"\xff\xfe info!(\"x\");\n")], "edit",
                           structured=True, name="big"))
    rep.cov["rule"] = ("edit runs of the real binary over (a) the repository's Rust corpus, (b) generated canonical "
                       "statements with layouts/decoys/directives, (c) malformed and mutated text (multi-byte, CRLF, "
                       "unterminated strings/comments, invalid UTF-8, empty, thousands of statements), both styles; "
                       "predicate per file: new == original, or deleting the inserted tokens gives the original and "
                       "the tokens stand exactly at the statements that lacked a reference. Non-trivial = file changed")
    obs = drv.run_all(scs, timeout=300)
    dist = {"files": 0, "changed": 0, "unchanged": 0, "non_utf8": 0}
    for structured in (False, True):
        texts, where = [], []
        for n, (s, o) in enumerate(zip(scs, obs)):
            if s.eff_structured() != structured:
                continue
            for rel, b in s.files:
                texts.append(b)
                where.append((n, rel))
        es = drv.entries_of(texts, structured)
        for (n, rel), e in zip(where, es):
            s, o = scs[n], obs[n]
            ob, nb = drv.orig_bytes(s, rel), drv.final_bytes(o, rel)
            dist["files"] += 1
            rep.count((structured, ob), nontrivial=nb != ob)
            if e is None:
                dist["non_utf8"] += 1
            if nb is None:
                rep.violation("file %s no longer exists after the run" % rel,
                              {"kind": "file", "structured": structured, "orig_b64": gen.b64(ob)})
                continue
            dist["changed" if nb != ob else "unchanged"] += 1
            if e is None and nb != ob:
                rep.violation("a file that is not valid UTF-8 was modified", {"kind": "file", "structured": structured,
                                                                              "orig_b64": gen.b64(ob)})
                continue
            problems = judge_file(ob, nb, e, structured)
            if (structured, ob) in oracle and not problems and h2.exit_class(o) == "OK":
                ins = scen.delete_tokens(ob, nb)
                want = oracle[(structured, ob)]
                if ins is not None and sorted(off for off, _ in ins) != want:
                    problems.append("tokens inserted at %r; the statements that lack a reference (by the property text) "
                                    "are at %r -- a statement that already carries a valid reference must receive nothing"
                                    % (sorted(off for off, _ in ins), want))
            if problems:
                rep.violation("%s: %s" % (rel, "; ".join(problems)[:500]),
                              {"kind": "file", "structured": structured, "orig_b64": gen.b64(ob),
                               "new_b64": gen.b64(nb), "problems": problems})
    for s, o in zip(scs, obs):
        if h2.exit_class(o) not in ("OK", "ERR"):
            rep.violation("run on %s tree ended with %s" % (s.name, h2.exit_class(o)),
                          {"kind": "scenario", "scenario": s.to_json()})
    rep.sample({"tree": scs[0].name, "files": [r for r, _ in scs[0].files][:4], "exit": h2.exit_class(obs[0])})
    rep.sample({"generated_file": scs[len(scs) // 2].files[0][1].decode("utf-8", "replace")[:400]})
    rep.extra["input_distribution"] = dist
    if model_ok:
        # the extracted model is quadratic in (statements x size): correspondence on the smaller trees only
        small = [(s, o) for s, o in zip(scs, obs) if sum(len(b) for _, b in s.files) <= 60000 and s.name != "big"]
        rep.extra["correspondence_skipped_large_trees"] = len(scs) - len(small)
        drv.corr_fault_free(rep, small)


def replay(path):
    d = json.load(open(path))
    r = d["replay"]
    if r.get("kind") == "file":
        ob = gen.unb64(r["orig_b64"])
        s = h2.Scenario([("x.rs", ob)], "edit", structured=r["structured"])
        C.build_repo()
        o = h2.run_impl(s)
        nb = drv.final_bytes(o, "x.rs")
        print("original:", ob[:300], "\nafter edit:", None if nb is None else nb[:300])
        es = drv.entries_of([ob], r["structured"])[0]
        p = judge_file(ob, nb, es, r["structured"]) if nb is not None else ["file vanished"]
        print("problems:", p)
        return 1 if p else 0
    print(json.dumps(d)[:2000])
    return 1
