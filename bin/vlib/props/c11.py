"""C11 -- comments, unconfigured macros and non-literal invocations are never touched."""
import json, random
from .. import common as C
from .. import h1, h2, drv, gen, parsechk, scen


def decoy_only_files(rng, n):
    out = []
    for _ in range(n):
        b, exp = gen.cfl_file(rng, bool(rng.getrandbits(1)), features={"comment", "decoy", "strlit", "plain", "blank"})
        assert exp == []
        out.append(b)
    tails = ["// info!(\"x\")", "/* warn!(\"x\") */", "/// error!(\"x\")", "fn f(){} // info!(\"x\")", "//", "/**/"]
    out += [t.encode() for t in tails]
    return out


def run(rep, tier, seed, model_ok):
    rng = random.Random(seed)
    parsechk.corpus_campaign(rep)
    n = 600 if tier == "quick" else 6000
    rep.cov["rule"] = ("generated files mixing decoys -- line, block and doc comments with statement-like text (also as the "
                       "last line without newline), unconfigured macros (other name, configured name as prefix/suffix, other "
                       "module path, other case), configured names without a literal message, macro-like text inside string "
                       "literals with escaped quotes -- with real statements; entries must be exactly those of the real "
                       "statements; decoy-only trees through the real binary must give exit 0 in --check and no byte changed "
                       "by an edit run. Non-trivial = file with a macro invocation or comment")
    cases = parsechk.entries_campaign(rep, rng, n, {"comment", "decoy", "strlit", "stmt", "plain", "blank", "decoy", "comment"},
                                      label="decoys among statements", model_ok=model_ok)
    parsechk.binary_campaign(rep, cases, limit=8 if tier == "quick" else 60)
    # decoy-only trees through the binary, both modes
    C.build_repo()
    files = decoy_only_files(rng, 60 if tier == "quick" else 600)
    scs = []
    for i in range(0, len(files), 10):
        for structured in (False, True):
            scs.append(h2.Scenario([("d%d.rs" % j, b) for j, b in enumerate(files[i:i + 10])], "check",
                                   structured=structured, macros=gen.MACROS_ARG, name="decoys"))
    oc = drv.run_all(scs)
    oe = drv.run_all([s.with_(mode="edit") for s in scs])
    for s, a, b in zip(scs, oc, oe):
        rep.count(("decoys", json.dumps(s.to_json(), sort_keys=True)), nontrivial=True)
        if h2.exit_class(a) != "OK" or a.missing or a.unusable:
            rep.violation("--check on a decoy-only tree: exit %s, reports %r" % (h2.exit_class(a), (a.missing + a.unusable)[:4]),
                          {"kind": "scenario", "scenario": s.to_json()})
        changed = [rel for rel, ob in s.files if drv.final_bytes(b, rel) != ob]
        if changed or h2.exit_class(b) != "OK":
            rep.violation("edit on a decoy-only tree: exit %s, changed %r" % (h2.exit_class(b), changed[:4]),
                          {"kind": "scenario", "scenario": s.to_json()})
    rep.extra["binary_runs"] = rep.extra.get("binary_runs", 0) + 2 * len(scs)


def replay(path):
    d = json.load(open(path))
    r = d["replay"]
    if r.get("kind") == "entries":
        return parsechk.replay_entries(r)
    if r.get("kind") == "scenario":
        C.build_repo()
        s = h2.Scenario.from_json(r["scenario"])
        a = h2.run_impl(s.with_(mode="check"))
        print("check exit:", h2.exit_class(a), a.missing)
        return 1
    print(json.dumps(d)[:2000])
    return 1
