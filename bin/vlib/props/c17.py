"""C17 -- no input makes Breadlog panic or hang."""
import json, os, random, time
from .. import common as C
from .. import h1, h2, drv, gen, scen


def timing_families(n):
    """Inputs of ordinary shape whose size is a parameter."""
    return {
        "alnum_run": ("const X: &str = \"" + "a1b2c3d4" * (n // 8) + "\";\nfn f(){ info!(\"x\"); }\n").encode(),
        "ident_words": (" ".join("word%d" % i for i in range(n // 6)) + "\ninfo!(\"x\");\n").encode(),
        "many_statements": gen.big_file(random.Random(1), n // 40),
        "long_comment": ("/* " + "comment text " * (n // 13) + "*/\ninfo!(\"x\");\n").encode(),
        "nested_parens": ("fn f() { g(" * (n // 11) + ")" * (n // 11) + " }\n").encode(),
        "quotes": ("let s = \"x\"; " * (n // 13) + "\n").encode(),
        "colons": ("a::b::c::d::e " * (n // 15) + "\n").encode(),
    }


def run(rep, tier, seed, model_ok):
    rng = random.Random(seed)
    C.build_repo()
    quick = tier == "quick"
    rep.cov["rule"] = ("(a) the finder (hook library, panics caught and reported) and the extracted model on a malformed stream: "
                       "token soup over the grammar's own terminals, character- and byte-level mutations of generated files "
                       "(invalid UTF-8 included), Unicode injected at every grammar boundary, edge shapes (empty, unterminated "
                       "strings/comments, lone CR, BOM); (b) both modes of the real binary over the same stream, the corpus and "
                       "multi-megabyte files: exit status must be 0 or 1 (no 101 / abort / signal), within the time budget; an "
                       "unreadable file next to readable ones must be skipped and the others processed; (c) size-scaling "
                       "families of ordinary shape measured at two sizes: time must scale at most ~linearly. "
                       "Non-trivial = input that is not valid Rust")
    mal = gen.malformed_files(rng, 1000 if quick else 20000) + gen.multibyte_window_files()
    ok_utf8 = [b for b in mal if _utf8(b)]
    MODEL_MAX = 6000      # the extracted model walks range tables per character: keep it to small inputs
    dist = {"malformed": len(mal), "invalid_utf8": len(mal) - len(ok_utf8)}
    # (a) finder level
    for structured in (False, True):
        lines = ["entries\t%d\t%s\t%s" % (1 if structured else 0, gen.MACROS_ARG, b.hex()) for b in ok_utf8]
        impl = h1.impl_only(lines)
        small = [i for i, b in enumerate(ok_utf8) if len(b) <= MODEL_MAX]
        model = None
        if model_ok:
            ans = h1.model_only([lines[i] for i in small])
            model = {i: a for i, a in zip(small, ans)}
        bad = 0
        for i, (b, a) in enumerate(zip(ok_utf8, impl)):
            rep.count((structured, b), nontrivial=True)
            if "PANIC" in a or "CRASH" in a:
                rep.violation("the finder panics on %r (structured=%s)" % (b[:120], structured),
                              {"kind": "entries", "structured": structured, "file_b64": gen.b64(b)})
            elif model is not None and i in model and model[i] != a:
                bad += 1
                if bad <= 3:
                    rep.not_shown("correspondence finder model <-> implementation on malformed text",
                                  json.dumps({"file": b.decode("utf-8", "replace")[:300], "impl": a[:300], "model": model[i][:300]}))
        rep.extra["correspondence_runs"] = rep.extra.get("correspondence_runs", 0) + (len(small) if model else 0)
        rep.extra["correspondence_disagreements"] = rep.extra.get("correspondence_disagreements", 0) + bad
    # (b) the binary, both modes
    scs = []
    for i in range(0, len(mal), 25):
        fs = [("m%d.rs" % j, b) for j, b in enumerate(mal[i:i + 25])]
        for mode in ("check", "edit"):
            scs.append(h2.Scenario(fs, mode, structured=bool((i // 25) % 2), macros=gen.MACROS_ARG,
                                   lock=h2.lock_bytes(1000000), name="malformed"))
    corpus = h1.corpus_files()
    rng.shuffle(corpus)
    corpus = corpus[:40 if quick else len(corpus)]
    for i in range(0, len(corpus), 20):
        fs = [("c%d/%s" % (j, os.path.basename(p)), b) for j, (p, b) in enumerate(corpus[i:i + 20])]
        scs.append(h2.Scenario(fs, "edit", structured=bool(i % 2), name="corpus"))
    big = gen.big_file(rng, 6000 if quick else 120000)
    scs.append(h2.Scenario([("big.rs", big), ("bin.rs", b"\xff\xfe\x00info!(\"x\");"), ("ok.rs", b"fn f(){ info!(\"after the bad one\"); }\n")],
                           "edit", name="large+unreadable"))
    t0 = time.time()
    obs = drv.run_all(scs, timeout=180)
    dist["binary_runs"] = len(scs)
    dist["binary_seconds"] = round(time.time() - t0, 1)
    for s, o in zip(scs, obs):
        cls = h2.exit_class(o)
        rep.count(("bin", s.name, json.dumps(s.to_json(), sort_keys=True)[:2000]), nontrivial=True)
        if cls not in ("OK", "ERR"):
            rep.violation("%s tree, %s mode: the run ended with %s: %s" % (s.name, s.mode, cls, o.out[-300:]),
                          {"kind": "scenario", "scenario": s.to_json() if len(json.dumps(s.to_json())) < 400000 else {"name": s.name}})
    o = obs[-1]
    nb = drv.final_bytes(o, "ok.rs") or b""
    if b"[ref:" not in nb:
        rep.violation("a file that cannot be read as text stopped the other files from being processed (ok.rs: %r)" % nb[:80],
                      {"kind": "scenario", "scenario": {"name": "large+unreadable"}})
    if "Failed to read file" not in o.out:
        rep.violation("the unreadable file was not reported", {"kind": "scenario", "scenario": {"name": "large+unreadable"}})
    # (b2) small files of ordinary shape with many comment openers inside string literals and line comments
    #      (glob tables, URL lists): they must be done in no time -- not only scale well
    globs = "const PATTERNS: &[&str] = &[\n" + "".join('    "dir%d/*.%s",\n' % (i, rng.choice(["rs", "md", "toml"])) for i in range(80)) + "];\n"
    urls = "const URLS: &[&str] = &[\n" + "".join('    "https://example.com/%d",\n' % i for i in range(200)) + "];\n"
    notes = "".join("// see src/*.rs and docs/*.md (%d)\n" % i for i in range(100))
    for nme, text in (("globs", globs), ("urls", urls), ("notes", notes), ("all", globs + urls + notes)):
        b = (text + 'fn f() { info!("after the table"); }\n').encode()
        for mode in ("check", "edit"):
            s = h2.Scenario([("t.rs", b)], mode, name="ordinary/" + nme)
            t1 = time.time()
            o = h2.run_impl(s, timeout=30)
            rep.count(("ordinary", nme, mode), nontrivial=True)
            if o.timed_out or h2.exit_class(o) not in ("OK", "ERR"):
                rep.violation("a %d-byte file of ordinary shape (%s) is not finished within 30 s in %s mode: %s" % (
                    len(b), nme, mode, "timeout" if o.timed_out else h2.exit_class(o)),
                    {"kind": "scenario", "scenario": s.to_json()})
        dist["ordinary_" + nme] = len(b)
    # (c) scaling
    sizes = (20000, 80000) if quick else (50000, 400000)
    scaling = {}
    for name in timing_families(1000):
        ts = []
        for n in sizes:
            b = timing_families(n)[name]
            s = h2.Scenario([("t.rs", b)], "check", name="timing")
            best = None
            for _ in range(2):
                # CPU time of the child processes (user + system), so that load on the machine does not count
                import resource
                r0 = resource.getrusage(resource.RUSAGE_CHILDREN)
                o = h2.run_impl(s, timeout=120)
                r1 = resource.getrusage(resource.RUSAGE_CHILDREN)
                cpu = (r1.ru_utime - r0.ru_utime) + (r1.ru_stime - r0.ru_stime)
                best = cpu if best is None else min(best, cpu)
            ts.append(best)
            if h2.exit_class(o) not in ("OK", "ERR"):
                rep.violation("timing family %s at %d bytes: %s" % (name, len(b), h2.exit_class(o)),
                              {"kind": "timing", "family": name, "size": n})
        ratio = ts[1] / max(ts[0], 0.02)
        scaling[name] = {"seconds": [round(x, 3) for x in ts], "ratio": round(ratio, 2)}
        rep.count(("timing", name), nontrivial=True)
        # 4x (8x) the size: linear would be ~4 (8); quadratic 16 (64).  Budget: 1.6x linear, and > 1.5 s CPU absolute
        if ratio > 1.6 * (sizes[1] / sizes[0]) and ts[1] > 1.5:
            rep.violation("run time of family '%s' grows faster than linearly: %r s for %r bytes" % (name, ts, sizes),
                          {"kind": "timing", "family": name, "sizes": sizes, "seconds": ts})
    rep.extra["scaling"] = scaling
    rep.sample({"malformed": mal[7].decode("utf-8", "replace")[:200]})
    rep.sample({"malformed_invalid_utf8_hex": next((b.hex()[:120] for b in mal if not _utf8(b)), None)})
    rep.sample({"scaling": scaling})
    rep.extra["input_distribution"] = dist
    rep.assumptions += ["panics inside dependencies (pest, regex, serde_yaml, walkdir, async-std) are outside the model; the "
                        "malformed stream through the real binary is their only coverage",
                        "wall-clock scaling is a measurement, not a theorem; the theorem is termination"]


def _utf8(b):
    try:
        b.decode("utf-8")
        return True
    except UnicodeDecodeError:
        return False


def replay(path):
    d = json.load(open(path))
    r = d["replay"]
    if r.get("kind") == "entries":
        b = gen.unb64(r["file_b64"])
        print(h1.impl_only(["entries\t%d\t%s\t%s" % (1 if r["structured"] else 0, gen.MACROS_ARG, b.hex())]))
        return 1
    print(json.dumps(d)[:2000])
    return 1
