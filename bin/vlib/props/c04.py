"""C04 -- check mode never modifies anything."""
import json, os, random
from .. import common as C
from .. import h2, drv, scen, gen
from ..scen import stmt, wrap_fn


def scenarios(tier, rng):
    out = []
    quick = tier == "quick"
    trees = []
    for structured in (False, True):
        for fs in scen.small_trees(structured, rng, 14 if quick else 120):
            trees.append((structured, fs))
        for _ in range(4 if quick else 40):
            b, _ = gen.cfl_file(rng, structured)
            trees.append((structured, [("g.rs", b), ("sub/h.rs", gen.cfl_file(rng, structured)[0])]))
    trees.append((False, [("bad.rs", b"\xff\xfe info!(\"x\");\n"), ("ok.rs", b"fn f(){ info!(\"x\"); }\n")]))
    trees.append((False, []))
    for structured, fs in trees:
        for lockkind in ("absent", "valid100", "corrupt", "empty", "conflict"):
            for uc in (None, False):
                if quick and rng.random() < 0.5:
                    continue
                out.append(h2.Scenario(fs, "check", structured=structured, use_cache=uc,
                                       lock=scen.lock_variants(lockkind),
                                       extra_files=[("README.md", b"readme\n"), ("src/notes.txt", b"info!(\"x\")\n")],
                                       name="check/%s" % lockkind))
    return out


def failing_setups():
    """(description, hook that damages the project, config argument or None)"""
    def no_src(proj):
        import shutil
        shutil.rmtree(os.path.join(proj, "src"))

    def src_is_file(proj):
        import shutil
        shutil.rmtree(os.path.join(proj, "src"))
        open(os.path.join(proj, "src"), "w").write("x")

    def bad_yaml(proj):
        open(os.path.join(proj, "Breadlog.yaml"), "w").write("---\n: this is invalid YAML\n  -")

    def no_yaml(proj):
        os.remove(os.path.join(proj, "Breadlog.yaml"))
    return [("missing source dir", no_src), ("source dir is a file", src_is_file), ("invalid YAML", bad_yaml),
            ("missing config", no_yaml)]


def judge(s, o, what):
    problems = []
    muts = [t for t in o.trace if drv.is_mutating(t)]
    if muts:
        problems.append("mutating filesystem operations in check mode: %r" % [
            (t["op"], t.get("rest", t.get("detail"))) for t in muts[:4]])
    if o.before != o.after:
        ch = sorted(k for k in set(o.before) | set(o.after) if o.before.get(k) != o.after.get(k))
        problems.append("project files differ after the run: %r" % ch[:5])
    if o.tmp_left:
        problems.append("files left in the temporary directory: %r" % o.tmp_left[:3])
    if getattr(o, "tmp_decoys_changed", None):
        problems.append("files that were in the temporary directory before the run were removed or changed: %r"
                        % o.tmp_decoys_changed)
    return problems


def run(rep, tier, seed, model_ok):
    rng = random.Random(seed)
    C.build_repo()
    scs = scenarios(tier, rng)
    rep.cov["rule"] = ("--check runs of the real binary under the interposer (every libc call that can create, write, "
                       "rename, truncate, chmod or remove is logged for the whole process) over small-scope and generated "
                       "trees x lock {absent, valid, corrupt, empty} x cache on/off x both styles, plus failing "
                       "configurations and interrupted runs; the temporary directory holds old files, some named like the tool's scratch "
                       "files; predicate: no mutating operation at all, an identical project snapshot and an untouched temporary directory. Non-trivial = the run scanned at least one file")
    obs = drv.run_all(scs)
    dist = {}
    for s, o in zip(scs, obs):
        cls = h2.exit_class(o)
        dist[cls] = dist.get(cls, 0) + 1
        rep.count(json.dumps(s.to_json(), sort_keys=True), nontrivial=len(h2.walk_order(o, s)) > 0)
        p = judge(s, o, "check")
        if p:
            rep.violation("; ".join(p)[:600], {"kind": "scenario", "scenario": s.to_json(), "problems": p})
    # failing configurations and interrupted / faulted checks
    base = h2.Scenario([("a.rs", wrap_fn([stmt(msg="a"), stmt(msg="b", ref=3)]).encode()),
                        ("b.rs", wrap_fn([stmt(msg="c")]).encode())], "check", lock=scen.lock_bytes(50))
    for desc, hook in failing_setups():
        o = h2.run_impl(base, setup_hook=hook)
        rep.count(("failing", desc), nontrivial=False)
        p = judge(base, o, "check")
        if h2.exit_class(o) == "OK":
            p.append("exit 0 with %s" % desc)
        if p:
            rep.violation("%s: %s" % (desc, "; ".join(p)[:500]), {"kind": "failing", "setup": desc, "problems": p})
    o0 = h2.run_impl(base)
    n_ops = max([t["k"] for t in o0.trace if t["k"]] or [0])
    plans = []
    for k in range(1, n_ops + 1):
        plans += ["%d=sig:15" % k, "%d=fail:5" % k]
        if tier != "quick":
            plans += ["%d=sig:2" % k, "%d=fail:13" % k, "%d=killb" % k]
    res = drv.pmap(lambda pl: h2.run_impl(base, plan=pl), plans)
    for pl, o in zip(plans, res):
        rep.count(("plan", pl), nontrivial=True)
        p = judge(base, o, "check")
        if p:
            rep.violation("check with %s: %s" % (pl, "; ".join(p)[:500]),
                          {"kind": "plan", "scenario": base.to_json(), "plan": pl, "problems": p})
    rep.sample({"scenario": scs[0].to_json(), "exit": h2.exit_class(obs[0]),
                "trace_ops": [t["op"] for t in obs[0].trace][:12]})
    rep.sample({"plan": plans[3] if len(plans) > 3 else None, "exit": h2.exit_class(res[3]) if len(res) > 3 else None})
    rep.extra["input_distribution"] = dict(dist, scenarios=len(scs), plans=len(plans), failing_setups=4)
    if model_ok:
        drv.corr_fault_free(rep, list(zip(scs, obs)))
    rep.assumptions += ["the interposer sees libc calls of the dynamically linked binary; direct syscalls that bypass "
                        "libc would be invisible (the snapshot comparison still applies)"]


def replay(path):
    d = json.load(open(path))
    r = d["replay"]
    C.build_repo()
    if r.get("kind") in ("scenario", "plan"):
        s = h2.Scenario.from_json(r["scenario"])
        o = h2.run_impl(s, plan=r.get("plan"))
        p = judge(s, o, "check")
        print("exit:", h2.exit_class(o), "problems:", p)
        return 1 if p else 0
    print(json.dumps(d)[:2000])
    return 1
