"""C15 -- only in-scope files are scanned; paths resolve against the config file."""
import json, os, random, shutil
from .. import common as C
from .. import h1, h2, drv, scen

STMT = b'fn f() { info!("needs a reference"); }\n'


def build_layout(proj, layout):
    """layout: list of (relative path under the project, kind, arg) with kind in file/dir/link."""
    for rel, kind, arg in layout:
        p = os.path.join(proj, rel)
        os.makedirs(os.path.dirname(p), exist_ok=True)
        if kind == "file":
            open(p, "wb").write(arg)
        elif kind == "dir":
            os.makedirs(p, exist_ok=True)
        elif kind == "link":
            os.symlink(arg, p)


def layouts(rng):
    base = [
        ("src/a.rs", "file", STMT), ("src/sub/b.rs", "file", STMT), ("src/sub/deep/er/c.rs", "file", STMT),
        ("src/d.RS", "file", STMT), ("src/e.rsx", "file", STMT), ("src/f.rs.bak", "file", STMT), ("src/noext", "file", STMT),
        ("src/.rs", "file", STMT), ("src/g.", "file", STMT), ("src/rs", "file", STMT), ("src/.hidden.rs", "file", STMT),
        ("src/h.txt", "file", STMT), ("src/mod.rs/inner.rs", "file", STMT), ("src/mod.rs/inner.txt", "file", STMT),
        ("src/empty.rs", "dir", None),
        ("outside/target.rs", "file", STMT), ("outside/deep/t2.rs", "file", STMT), ("elsewhere.rs", "file", STMT),
        ("src/link_out.rs", "link", "../outside/target.rs"), ("src/link_in.rs", "link", "a.rs"),
        ("src/linkdir", "link", "../outside"), ("src/linkdir.rs", "link", "sub"), ("src/dangling.rs", "link", "nowhere.rs"),
        ("src/sub/uplink", "link", ".."),
    ]
    out = [("full", base)]
    # random variations: subsets with random nesting
    for k in range(6):
        lay = [x for x in base if rng.random() < 0.7 or x[0] == "src/a.rs"]
        lay += [("src/r%d/x%d.%s" % (k, j, rng.choice(["rs", "Rs", "rs2", "r", "txt", "rs"])), "file", STMT) for j in range(3)]
        out.append(("random%d" % k, lay))
    return out


def py_extension(name):
    """Path::extension"""
    if name in ("..",):
        return None
    i = name.rfind(".")
    if i <= 0:
        return None
    return name[i + 1:]


def expected_scope(proj, src_abs, exts):
    out = []
    for dp, dns, fns in os.walk(src_abs, followlinks=False):
        for fn in fns:
            p = os.path.join(dp, fn)
            if os.path.islink(p) or not os.path.isfile(p):
                continue
            if py_extension(fn) in exts:
                out.append(os.path.relpath(p, proj))
    return sorted(out)


def tree_tokens(root):
    toks = []
    for nm in sorted(os.listdir(root)):
        p = os.path.join(root, nm)
        h = nm.encode().hex()
        if os.path.islink(p):
            toks.append("L" + h)
        elif os.path.isdir(p):
            toks.append("D" + h)
            toks += tree_tokens(p)
            toks.append("U")
        else:
            toks.append("F" + h)
    return toks


def one_case(name, layout, exts, src_spelling, cfg_spelling, mode):
    """Runs the binary in a fresh project; returns (description, problems, model_line, expected)."""
    import uuid
    d = os.path.join(C.RUN, "c15-" + uuid.uuid4().hex[:10])
    proj = os.path.join(d, "work", "proj")
    os.makedirs(proj)
    tmp = os.path.join(d, "tmp")
    os.makedirs(tmp)
    os.makedirs(os.path.join(d, "work", "sibling"))
    problems = []
    try:
        build_layout(proj, layout)
        src_abs = os.path.join(proj, "src")
        src_cfg = {"rel": "src", "dot": "./src", "abs": src_abs, "updown": "src/../src"}[src_spelling]
        y = "source_dir: %s\nrust:\n" % src_cfg
        if exts is not None:
            y += "  extensions: [%s]\n" % ", ".join('"%s"' % e for e in exts)
        y += "  log_macros:\n    - module: log\n      name: info\n"
        open(os.path.join(proj, "Breadlog.yaml"), "w").write(y)
        cwd, arg = {"abs": (d, os.path.join(proj, "Breadlog.yaml")), "incwd": (proj, "Breadlog.yaml"),
                    "dotslash": (proj, "./Breadlog.yaml"), "fromparent": (os.path.join(d, "work"), "proj/Breadlog.yaml"),
                    "fromsibling": (os.path.join(d, "work", "sibling"), "../proj/Breadlog.yaml"),
                    "fromroot": ("/", os.path.join(proj, "Breadlog.yaml"))}[cfg_spelling]
        eff_exts = ["rs"] if exts is None else exts
        want = expected_scope(proj, src_abs, eff_exts)
        before = h2.snapshot(os.path.join(d, "work"))
        env = dict(os.environ, TMPDIR=tmp, LD_PRELOAD=C.SHIM, VSHIM_LOG=os.path.join(d, "trace"),
                   VSHIM_ROOTS=os.path.join(d, "work") + ":" + tmp)
        import subprocess
        r = subprocess.run([C.BREADLOG, "-c", arg] + (["--check"] if mode == "check" else []), env=env, cwd=cwd,
                           capture_output=True, timeout=60)
        out = (r.stdout + r.stderr).decode("utf-8", "replace")
        after = h2.snapshot(os.path.join(d, "work"))
        changed = sorted(k for k in set(before) | set(after) if before.get(k) != after.get(k))
        lock_rel = "proj/Breadlog.lock"
        if mode == "edit":
            changed_src = sorted(os.path.relpath(os.path.join(d, "work", k), proj) for k in changed if k != lock_rel)
            if want:
                if changed_src != want:
                    problems.append("edit modified %r, in scope are %r" % (changed_src, want))
                if lock_rel not in after or lock_rel not in changed:
                    problems.append("the lock file did not appear next to the configuration file (changed: %r)" % changed[:6])
                stray = [k for k in after if k.endswith("Breadlog.lock") and k != lock_rel]
                if stray:
                    problems.append("a lock file appeared elsewhere: %r" % stray)
                if r.returncode != 0:
                    problems.append("edit exit %d" % r.returncode)
            else:
                if changed:
                    problems.append("nothing is in scope but %r changed" % changed[:5])
                if r.returncode == 0:
                    problems.append("nothing is in scope but the run exited 0")
        else:
            if changed:
                problems.append("check modified %r" % changed[:5])
            rep = sorted(os.path.relpath(f, proj) if os.path.isabs(f)
                         else os.path.normpath(os.path.relpath(os.path.join(cwd, f), proj))
                         for f, _, _ in h2.parse_located(out, 5))
            if rep != want:
                problems.append("check reports missing references in %r, in scope are %r" % (rep, want))
        for k, v in after.items():
            if before.get(k, (None,))[0] == "link" and v[0] != "link":
                problems.append("symbolic link %s was replaced by a %s" % (k, v[0]))
        # files opened for reading under the work dir must be the config, the lock and in-scope files
        opened = set()
        for t in h2.parse_trace(os.path.join(d, "trace")):
            if t["k"] is not None and t["op"] == "open" and t["rest"] and t["rest"][0] == "r":
                opened.add(" ".join(t["rest"][1:]))
        extra = sorted(os.path.relpath(p, proj) for p in opened
                       if os.path.relpath(os.path.realpath(p), proj) not in want
                       and not p.endswith("Breadlog.yaml") and not p.endswith("Breadlog.lock") and os.path.isfile(p))
        if extra:
            problems.append("files outside the scope were read: %r" % extra[:5])
        model_line = "finder\t%s\t%s" % (",".join(e.encode().hex() for e in eff_exts) if eff_exts else "-",
                                         " ".join(tree_tokens(src_abs)))
        return problems, model_line, want, out[-400:]
    finally:
        shutil.rmtree(d, ignore_errors=True)


def run(rep, tier, seed, model_ok):
    rng = random.Random(seed)
    C.build_repo()
    C.build_shim()
    quick = tier == "quick"
    rep.cov["rule"] = ("directory layouts (nesting; look-alike names .RS .rsx .rs.bak, no extension, hidden .rs, trailing dot, "
                       "a directory named *.rs with files inside; symbolic links to files and directories inside and outside "
                       "the tree, dangling and upward links; files outside the source dir) x extension lists x source_dir "
                       "spelled relative / ./ / absolute / with .. x configuration path spelled absolute / relative from "
                       "several working directories x both modes, through the real binary: the set of modified (edit) or "
                       "reported (check) files must equal the regular files below the source dir with a configured extension "
                       "(computed independently), links stay links, only in-scope files are opened, the lock appears next to "
                       "the configuration file only; the Finder model is compared with the same set. "
                       "Non-trivial = layout with at least one in-scope file")
    cases = []
    for name, lay in layouts(rng):
        for exts in (None, ["rs"], ["rs", "txt"], ["RS"], ["bak"], [""], ["rsx", "rs"]):
            for src_sp in ("rel", "dot", "abs", "updown"):
                for cfg_sp in ("abs", "incwd", "dotslash", "fromparent", "fromsibling", "fromroot"):
                    for mode in ("edit", "check"):
                        cases.append((name, lay, exts, src_sp, cfg_sp, mode))
    if quick:
        full = [c for c in cases if c[0] == "full"]
        keep = [c for c in full if (c[2] in (None, ["rs", "txt"]) or c[3] == "rel") and (c[4] in ("abs", "fromsibling") or c[2] is None)]
        cases = keep + rng.sample([c for c in cases if c not in keep], 120)
    res = drv.pmap(lambda c: one_case(*c), cases)
    lines = []
    dist = {"with_scope": 0, "empty_scope": 0}
    for c, (problems, model_line, want, tail) in zip(cases, res):
        desc = {"layout": c[0], "extensions": c[2], "source_dir": c[3], "config_path": c[4], "mode": c[5]}
        dist["with_scope" if want else "empty_scope"] += 1
        rep.count(json.dumps(desc, sort_keys=True) + str(len(c[1])), nontrivial=bool(want))
        if problems:
            rep.violation("%s: %s" % (json.dumps(desc), "; ".join(problems)[:500]),
                          {"kind": "layout", "case": desc, "layout_items": [(a, b, None if isinstance(x, bytes) else x) for a, b, x in c[1]],
                           "problems": problems, "output_tail": tail})
        lines.append(model_line)
    rep.sample({"case": {"layout": cases[0][0], "extensions": cases[0][2], "source_dir": cases[0][3], "config_path": cases[0][4]},
                "in_scope": res[0][2]})
    if model_ok:
        uniq = sorted(set(lines))
        ans = dict(zip(uniq, h1.model_only(uniq)))
        bad = 0
        for c, (problems, model_line, want, _) in zip(cases, res):
            a = ans.get(model_line, "")
            got = sorted("src/" + "/".join(bytes.fromhex(x).decode() for x in p.split("/")) for p in a.split(" ")[1:] if p) \
                if a.startswith("finder") and a != "finder ERR" else None
            if got != want:
                bad += 1
                rep.not_shown("correspondence Finder model <-> directory walk of the implementation",
                              json.dumps({"model": got, "expected_from_filesystem": want, "extensions": c[2]})[:1500])
        rep.extra["correspondence_runs"] = len(cases)
        rep.extra["correspondence_disagreements"] = bad
    rep.extra["input_distribution"] = dict(dist, cases=len(cases))
    rep.assumptions += ["Path / walkdir semantics are modelled (components, no link following); readdir order is the filesystem's "
                        "and is irrelevant to the set compared"]


def replay(path):
    d = json.load(open(path))
    print(json.dumps(d["replay"], indent=1)[:3000])
    return 1
