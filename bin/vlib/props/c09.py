"""C09 -- edits preserve program behaviour apart from the added reference (translation validation)."""
import glob, json, os, random, re, shutil, subprocess, uuid
from .. import common as C
from .. import h2, drv, gen

C09_DIR = os.path.join(C.BUILD, "c09")
RLIB = os.path.join(C09_DIR, "liblog.rlib")
DOC_RE = re.compile(r"\[ref: ([0-9]{1,10})\]")

PRELUDE = '''use log::kv::{Error, Key, Value, VisitSource};
#[allow(unused_imports)]
use log::{debug, error, info, trace, warn, Log, Metadata, Record};

struct Collect(Vec<String>);
impl<'kvs> VisitSource<'kvs> for Collect {
    fn visit_pair(&mut self, key: Key<'kvs>, value: Value<'kvs>) -> Result<(), Error> {
        self.0.push(format!("{}={}", key, value));
        Ok(())
    }
}
struct Printer;
impl Log for Printer {
    fn enabled(&self, _: &Metadata) -> bool { true }
    fn log(&self, record: &Record) {
        let mut kvs = Collect(Vec::new());
        record.key_values().visit(&mut kvs).unwrap();
        println!("{}\\x1f{}\\x1f{}\\x1f{}", record.level(), record.target(), record.args(), kvs.0.join("\\x1e"));
    }
    fn flush(&self) {}
}
static PRINTER: Printer = Printer;
#[derive(Debug)]
#[allow(dead_code)]
struct Pt { x: i32, y: i32 }
fn main() {
    log::set_logger(&PRINTER).unwrap();
    log::set_max_level(log::LevelFilter::Trace);
    let user_id = 42u32;
    let host = "alpha";
    let attempts = vec![1, 2, 3];
    let pt = Pt { x: 1, y: -2 };
    let ratio = 0.5f64;
    let err = std::io::Error::new(std::io::ErrorKind::Other, "boom");
    let _ = (&user_id, &host, &attempts, &pt, &ratio, &err);
'''


def ensure_rlib():
    os.makedirs(C09_DIR, exist_ok=True)
    if os.path.exists(RLIB):
        return
    src = sorted(glob.glob(os.path.expanduser("~/.cargo/registry/src/*/log-0.4.22/src/lib.rs")))
    if not src:
        raise C.BuildError("log-0.4.22 sources not found in the offline registry", "")
    r = subprocess.run(["rustc", "--edition", "2021", "--crate-name", "log", "--crate-type", "rlib",
                        "--cfg", 'feature="kv"', "--cfg", 'feature="std"', "--cap-lints", "allow",
                        "-o", RLIB, src[-1]], capture_output=True, text=True)
    if r.returncode != 0:
        raise C.BuildError("cannot build the log crate", r.stderr[-2000:])


def gen_statement(rng, k):
    """One log statement over the log crate's macro grammar (compilable against PRELUDE's locals)."""
    macro = rng.choice(["info", "warn", "error", "debug", "trace", "log::info", "log::warn"])
    target = rng.choice([None, None, '"net"', '"db::pool"', '"a b"'])
    kvs = []
    for _ in range(rng.choice([0, 0, 0, 1, 1, 2, 3])):
        kvs.append(rng.choice(['k%d = %d' % (k, rng.randint(0, 99)), 'host = "beta"', 'user_id', 'user_id:%', 'attempts:?',
                               'pt:? = pt', 'ratio = ratio', 'name = host', 'code:% = 7', 'host:? = host',
                               'text = "a;b,c"', 'n%d:debug = attempts' % k, 'user_id:display']))
    # keys must be distinct
    seen, kv2 = set(), []
    for x in kvs:
        key = re.split(r"[ :=]", x)[0]
        if key not in seen and key != "ref":
            seen.add(key)
            kv2.append(x)
    fmt, args = rng.choice([("plain message %d" % k, ""), ("value {} of {}", ", user_id, host"), ("{:?} and {ratio:.2}", ", pt"),
                            ("escaped {{braces}} %d" % k, ""), ("{0} {0} {1}", ", host, user_id"), ("unicode café ☃ {}", ", k_local(%d)" % k),
                            ("[ref: notanumber] {}", ", host"), ("see [ref: 5] {}", ", user_id"), ("trailing {}", ", attempts.len()"),
                            ("named {user_id} {host}", ""), ("width {:>6}|", ", user_id"), ("quote \\\" inside {}", ", host")])
    sep = rng.choice([" ", " ", "\n        ", " /* c */ "])
    parts = []
    if target:
        parts.append("target: %s," % target)
    if kv2:
        parts.append(("," + sep).join(kv2) + ";")
    parts.append('"%s"%s' % (fmt, args))
    pre = rng.choice(["", "", "// breadlog:no-kvp\n    ", "// breadlog:ignore\n    ", "/* note */ "])
    return "    %s%s!(%s);\n" % (pre, macro, sep.join(parts))


def gen_program(rng, n):
    body = "".join(gen_statement(rng, k) for k in range(n))
    return PRELUDE + body + "}\nfn k_local(x: u32) -> u32 { x + 1 }\n"


def compile_run(src_path, exe):
    r = subprocess.run(["rustc", "--edition", "2021", "--crate-name", "prog", "--cap-lints", "allow", "--extern", "log=" + RLIB,
                        "-L", C09_DIR, "-C", "debuginfo=0", "-C", "opt-level=0", "-o", exe, src_path], capture_output=True, text=True)
    if r.returncode != 0:
        return None, r.stderr[-1500:]
    r2 = subprocess.run([exe], capture_output=True, text=True, timeout=60)
    if r2.returncode != 0:
        return None, "program exited %d: %s" % (r2.returncode, r2.stderr[-500:])
    recs = []
    for line in r2.stdout.split("\n"):
        if "\x1f" in line:
            lvl, tgt, msg, kvs = line.split("\x1f")
            recs.append({"level": lvl, "target": tgt, "message": msg, "kvs": [x for x in kvs.split("\x1e") if x]})
    return recs, ""


def one_program(seed, n, structured):
    rng = random.Random(seed)
    src = gen_program(rng, n)
    d = os.path.join(C.RUN, "c09-" + uuid.uuid4().hex[:10])
    os.makedirs(d)
    problems = []
    try:
        p0 = os.path.join(d, "before.rs")
        open(p0, "w").write(src)
        before, err = compile_run(p0, os.path.join(d, "before"))
        if before is None:
            return {"skipped": "generated program does not compile: " + err[-300:], "src": src}, []
        macros = "log=info,log=warn,log=error,log=debug,log=trace"
        s = h2.Scenario([("main.rs", src.encode())], "edit", structured=structured, macros=macros)
        o = h2.run_impl(s)
        if h2.exit_class(o) != "OK":
            problems.append("the edit run exits %s" % h2.exit_class(o))
        edited = (drv.final_bytes(o, "main.rs") or b"").decode("utf-8", "replace")
        p1 = os.path.join(d, "after.rs")
        open(p1, "w").write(edited)
        after, err = compile_run(p1, os.path.join(d, "after"))
        if after is None:
            problems.append("the edited program no longer compiles / runs: " + err[-400:])
            return {"src": src, "edited": edited, "inserted": o.inserted}, problems
        if len(after) != len(before):
            problems.append("%d records before, %d after the edit" % (len(before), len(after)))
        ids = []
        n_ref = 0
        for a, b in zip(before, after):
            if a["level"] != b["level"] or a["target"] != b["target"]:
                problems.append("level/target changed: %r -> %r" % (a, b))
            if a == b:
                continue                                  # statement not edited (ignored or already referenced)
            n_ref += 1
            if b["message"] != a["message"]:
                m = DOC_RE.search(b["message"])
                if not (b["message"].startswith("[ref: ") and m and m.start() == 0 and
                        b["message"] == "[ref: %s] %s" % (m.group(1), a["message"])):
                    problems.append("message changed other than by the reference prefix: %r -> %r" % (a["message"], b["message"]))
                elif b["kvs"] != a["kvs"]:
                    problems.append("key-values changed: %r -> %r" % (a["kvs"], b["kvs"]))
                else:
                    ids.append(int(m.group(1)))
            else:
                refkv = [x for x in b["kvs"] if x.startswith("ref=")]
                rest = [x for x in b["kvs"] if not x.startswith("ref=")]
                if len(refkv) != 1 or rest != a["kvs"] or not refkv[0][4:].isdigit():
                    problems.append("key-values changed other than by ref = N: %r -> %r" % (a["kvs"], b["kvs"]))
                else:
                    ids.append(int(refkv[0][4:]))
        if len(set(ids)) != len(ids):
            problems.append("duplicate references in the record stream: %r" % ids)
        if o.inserted is not None and o.inserted != len(ids):
            problems.append("%d references inserted, %d records carry one" % (o.inserted, len(ids)))
        return {"src": src, "edited": edited, "records": len(before), "with_reference": len(ids)}, problems
    finally:
        shutil.rmtree(d, ignore_errors=True)


def run(rep, tier, seed, model_ok):
    rng = random.Random(seed)
    C.build_repo()
    ensure_rlib()
    quick = tier == "quick"
    n_prog = 6 if quick else 60
    n_stmt = 40 if quick else 120
    rep.cov["rule"] = ("generated Rust programs over the log crate's macro grammar (bare and log::-qualified macros of five levels, "
                       "optional target, 0-3 key-values with every capture modifier and shorthand keys, format strings with "
                       "positional / named / escaped placeholders, unicode, ref-like text, multi-line layouts, comments between "
                       "arguments, ignore and no-kvp directives), each compiled with rustc against log 0.4.22 (kv) and run with a "
                       "logger that prints level, target, formatted message and key-values -- before and after an edit run of the "
                       "real binary, in both styles; the two record streams must agree except that each edited statement's record "
                       "carries its reference as the message prefix that the documented regex extracts, or as key-value ref = N. "
                       "Non-trivial = program in which at least one record gained a reference")
    jobs = [(rng.randrange(1 << 30), n_stmt, bool(i % 2)) for i in range(n_prog)]
    res = drv.pmap(lambda j: one_program(*j), jobs, workers=8)
    programs = 0
    dist = {"records": 0, "with_reference": 0, "skipped": 0}
    for (sd, n, structured), (info, problems) in zip(jobs, res):
        if "skipped" in info:
            dist["skipped"] += 1
            rep.not_shown("C09 generator produced a program that does not compile (harness defect, not a property verdict)",
                          info["skipped"])
            continue
        programs += 1
        dist["records"] += info.get("records", 0)
        dist["with_reference"] += info.get("with_reference", 0)
        rep.count((sd, structured), nontrivial=info.get("with_reference", 0) > 0)
        if problems:
            rep.violation("structured=%s: %s" % (structured, "; ".join(problems)[:600]),
                          {"kind": "program", "seed": sd, "statements": n, "structured": structured,
                           "source": info.get("src"), "edited": info.get("edited"), "problems": problems})
    if res:
        info = res[0][0]
        rep.sample({"program_excerpt": (info.get("src") or "")[-900:], "edited_excerpt": (info.get("edited") or "")[-900:]})
    rep.extra["programs"] = programs
    rep.extra["disagreements_checked"] = dist["records"]
    rep.extra["input_distribution"] = dist
    rep.assumptions += ["rustc and the log crate's macro_rules are the oracle of 'behaviour'; the Coq theorems are about models of "
                        "format_args! and of the macro arms (Model/FormatStr.v), which nothing translates from Rust"]


def replay(path):
    d = json.load(open(path))
    r = d["replay"]
    if r.get("kind") == "program":
        C.build_repo()
        ensure_rlib()
        info, problems = one_program(r["seed"], r["statements"], r["structured"])
        print("problems:", problems)
        return 1 if problems else 0
    print(json.dumps(d)[:2000])
    return 1
