"""C10 -- every canonical log statement is found and its reference placed correctly."""
import json, random
from .. import common as C
from .. import h1, h2, drv, gen, parsechk


def classify(b, exp, got):
    return None


def known_findings(rep):
    """F12: a comment opener inside an ordinary (top-level) string literal hides what follows."""
    for text in ('let url = "http://example.com"; info!("x");\n', 'let g = "src/*.rs"; info!("y");\nlet h = "*/";\n'):
        b = text.encode()
        got = parsechk.norm(drv.entries_of([b], False, gen.MACROS_ARG)[0])
        if not (isinstance(got, list) and len(got) == 1):
            rep.violation("statement after a string literal containing a comment opener is missed: %r -> %r" % (text, got),
                          {"kind": "entries", "structured": False, "file_b64": gen.b64(b), "expected": "one entry"},
                          finding_class="comment_opener_in_plain_string")


def run(rep, tier, seed, model_ok):
    rng = random.Random(seed)
    parsechk.corpus_campaign(rep)
    n = 700 if tier == "quick" else 8000
    rep.cov["rule"] = ("files rendered from the canonical file language (gen.py): statements over the product of macro path "
                       "form x configured macro x target x key-value shapes and modifiers x message contents (placeholders, "
                       "escaped quotes, unicode, ref-like text, comment openers) x trailing arguments x inter-token layout "
                       "(blanks, newlines, CRLF, block and line comments) x what precedes the statement on its line, among "
                       "plain code; the expected entries (position, line, column, kind, reference, token shape) are computed "
                       "from the property text alone and compared with the implementation's finder, with the extracted model, "
                       "and -- for a sample -- with what --check reports and an edit run inserts. Non-trivial = file with a "
                       "macro invocation")
    cases = parsechk.entries_campaign(rep, rng, n, {"stmt", "plain", "blank", "stmt", "comment"}, label="canonical",
                                      finding_classifier=classify, model_ok=model_ok)
    cases += parsechk.entries_campaign(rep, rng, n // 3, {"stmt"}, label="statements only", model_ok=model_ok, n_items=3)
    # canonical statements that FOLLOW statements under a directive: what a directive did to one statement must
    # not leak into the next
    cases += parsechk.entries_campaign(rep, rng, n // 3, {"stmt", "stmt", "directive", "blank"}, label="after directives",
                                       model_ok=model_ok)
    parsechk.binary_campaign(rep, cases, limit=12 if tier == "quick" else 80)
    known_findings(rep)
    rep.assumptions += ["'simple key-values' = values that start with an identifier, a string literal or an unsigned number "
                        "(the three shapes the grammar names)", "raw strings, byte strings and char literals are not "
                        "'plain string literals'"]


def replay(path):
    d = json.load(open(path))
    r = d["replay"]
    if r.get("kind") == "entries":
        return parsechk.replay_entries(r)
    print(json.dumps(d)[:2000])
    return 1
