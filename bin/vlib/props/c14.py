"""C14 -- directives affect exactly the statement they precede."""
import json, random
from .. import common as C
from .. import h1, h2, drv, gen, parsechk


def placements(rng, structured):
    """Hand-enumerated placements around 1-3 consecutive statements (on top of the generated ones)."""
    out = []
    D = gen.DIRECTIVES
    st = lambda m: 'info!("%s");' % m            # noqa: E731
    for d in D["ignore"] + D["no-kvp"] + D["near"]:
        kind = "ignore" if d in D["ignore"] else ("no-kvp" if d in D["no-kvp"] else None)
        for blanks in ("", "\n", "\n\n   \n", "\r\n\t\r\n"):
            for indent in ("", "    ", "\t"):
                text = "fn f() {\n%s%s\n%s%s%s\n%s%s\n}\n" % (indent, d, blanks, indent, st("a"), indent, st("b"))
                out.append((text, kind, "before-first"))
        out.append(("%s\n%s %s\n%s\n" % (d, st("a"), st("b"), st("c")), kind, "two-on-line"))
        out.append(("%s\nlet x = 1;\n%s\n" % (d, st("a")), None, "code-line-between"))
        out.append(("%s\n// other comment\n%s\n" % (d, st("a")), None, "comment-line-between"))
        out.append(("%s\n%s\n" % (st("a"), d), None, "after"))
        out.append(("%s %s\n%s\n" % (st("a"), d, st("b")), kind if d.startswith("//") or d.startswith("/*") else None, "trailing-on-previous-line"))
    return out


def expected_for(text, kind, where, structured):
    """Expected entries of a hand-made placement, from the property text."""
    import re
    exp = []
    lines = text.split("\n")
    # which statements are affected: those starting on the first statement line after the directive
    affected_line = None
    if kind and where in ("before-first", "two-on-line", "trailing-on-previous-line"):
        seen_dir = False
        for i, l in enumerate(lines):
            if "breadlog" in l.lower() and not seen_dir:
                seen_dir = True
                continue
            if seen_dir and l.strip():
                affected_line = i
                break
    off = 0
    for i, l in enumerate(lines):
        for m in re.finditer(r'info!\("', l):
            pos_paren = off + len(l[:m.start()].encode()) + 5
            col_paren = len(l[:m.start()]) + 6
            aff = affected_line == i
            if aff and kind == "ignore":
                continue
            if structured and not (aff and kind == "no-kvp"):
                exp.append({"pos": pos_paren + 1, "line": i + 1, "col": col_paren + 1, "ref": None, "kind": "StructuredNew",
                            "usable": True, "name": "info", "probe": "ref = 7; "})
            else:
                exp.append({"pos": pos_paren + 2, "line": i + 1, "col": col_paren + 2, "ref": None, "kind": "String",
                            "usable": True, "name": "info", "probe": "[ref: 7] "})
        off += len(l.encode()) + 1
    return exp


def run(rep, tier, seed, model_ok):
    rng = random.Random(seed)
    parsechk.corpus_campaign(rep)
    n = 700 if tier == "quick" else 7000
    rep.cov["rule"] = ("(a) generated files in which directive comments (`breadlog:ignore` / `breadlog:no-kvp` in any letter "
                       "case, surrounding blanks, // or one-line /* */) and near-miss comments stand before, between and after "
                       "statements, with blank-line runs, indentation, two statements on a line, CRLF; (b) an enumerated set of "
                       "placements (directive x blank-line run x indentation; code or comment line in between; directive after "
                       "the statement; trailing on the previous line); both styles; the expected entries come from the property "
                       "text; compared on the finder, the model and through the binary. Non-trivial = file with a directive")
    cases = parsechk.entries_campaign(rep, rng, n, {"directive", "stmt", "blank", "directive", "stmt", "comment", "plain"},
                                      label="directives", model_ok=model_ok)
    parsechk.binary_campaign(rep, cases, limit=10 if tier == "quick" else 80)
    for structured in (False, True):
        pl = placements(rng, structured)
        texts = [t.encode() for t, _, _ in pl]
        impl = drv.entries_of(texts, structured, gen.MACROS_ARG)
        model = drv.model_entries_of(texts, structured, gen.MACROS_ARG) if model_ok else None
        for i, ((t, kind, where), got) in enumerate(zip(pl, impl)):
            exp = expected_for(t, kind, where, structured)
            g = parsechk.norm(got)
            rep.count((structured, t), nontrivial=True)
            if g != exp:
                rep.violation("placement '%s' of %r (structured=%s): finder returns %s, expected %s" % (
                    where, t[:80], structured, json.dumps(g)[:250], json.dumps(exp)[:250]),
                    {"kind": "entries", "structured": structured, "file_b64": gen.b64(t.encode()), "expected": exp})
            if model is not None and parsechk.norm(h1.parse_entries(model[i])) != g:
                rep.not_shown("correspondence finder model <-> implementation (directive placement)", t[:300])
        rep.sample({"placement": pl[3][0], "kind": pl[3][1], "structured": structured})


def replay(path):
    d = json.load(open(path))
    r = d["replay"]
    if r.get("kind") == "entries":
        return parsechk.replay_entries(r)
    print(json.dumps(d)[:2000])
    return 1
