"""C16 -- configuration switches and defaults mean what the guide says."""
import itertools, json, os, random, re, shutil
from .. import common as C
from .. import h1, h2, drv, scen
from ..scen import stmt, wrap_fn

LOCKS = ["absent", "valid100", "bare", "corrupt", "empty", "wrongkey", "negative", "noninteger", "valid5000000000",
         "conflict", "dupkey", "valid_doc100", "valid_crlf100", "valid_tail100", "valid0"]


def trees(structured_src):
    with_ref = stmt(msg="b", kvref="7") if structured_src else stmt(msg="b", ref=7)
    missing = [("a.rs", wrap_fn([stmt(msg="a"), with_ref]).encode()), ("b.txt", b"info!(\"no\");\n"),
               ("c.RS", b"info!(\"no\");\n")]
    complete = [("a.rs", wrap_fn([with_ref]).encode())]
    return {"missing": missing, "complete": complete}


def judge(s, o, expect_structured, expect_ext_rs, first):
    """first: the observation of the same scenario run once before (for 'later runs start from it')."""
    problems = []
    cls = h2.exit_class(o)
    uc = s.eff_use_cache()
    lk_before, lk_after = h2.classify_lock(s.lock), h2.classify_lock(o.lock)
    lock_ops = [t for t in o.trace if t["k"] is not None and t.get("rest") and "Breadlog.lock" in " ".join(t["rest"])]
    if not uc:
        if lock_ops:
            problems.append("use_cache false but the lock file was touched: %r" % [(t["op"], t["rest"][:1]) for t in lock_ops[:3]])
        if o.lock != s.lock:
            problems.append("use_cache false but the lock file changed / appeared")
        if o.used_cache:
            problems.append("use_cache false but the cached ID was used")
    if s.mode == "check":
        if o.lock != s.lock:
            problems.append("check mode changed the lock file")
        return problems
    order = h2.walk_order(o, s)
    ids = []
    for rel in order:
        d = scen.delete_tokens(drv.orig_bytes(s, rel), drv.final_bytes(o, rel) or b"")
        ids += [scen.token_id(t) for _, t in (d or [])]
    if uc:
        if lk_before.startswith("V") and int(lk_before[1:]) <= 4294967295:
            if ids and min(ids) != max(int(lk_before[1:]), 1):       # IDs start at 1 whatever the lock records
                problems.append("valid lock %s but the first new ID is %d" % (lk_before, min(ids)))
        elif ids:
            # unparsable / absent lock: ignored in favour of scanning the code (existing max is 7)
            if min(ids) != 8:
                problems.append("lock %s should be ignored in favour of scanning (expected first ID 8), got %d" % (lk_before, min(ids)))
        if ids and cls == "OK":
            if not lk_after.startswith("V") or int(lk_after[1:]) != max(ids) + 1:
                problems.append("an inserting edit run must record next ID %d, the lock says %s" % (max(ids) + 1, lk_after))
    # extensions default: only .rs files may change
    for rel, b in s.files:
        if not rel.endswith(".rs") and o.after.get(os.path.join("src", rel), (None, None))[1] != b:
            problems.append("file %s was modified although its extension is not configured" % rel)
    return problems


def lock_texts(rng, n):
    key = b"next_reference_id"
    hdr = scen.lock_bytes(1).split(b"next_reference_id")[0]
    out = [scen.lock_variants(k) for k in ("valid100", "bare", "corrupt", "empty", "wrongkey", "negative", "noninteger",
                                           "valid5000000000", "conflict", "dupkey", "valid_doc100", "valid_crlf100",
                                           "valid_tail100", "valid0")]
    out += [hdr, b"\n\n", b"# only a comment\n", key + b": 007\n", key + b":12\n", key + b" : 12\n", b"  " + key + b": 12\n",
            key + b":\t12\n", key + b": 12   \n", key + b": 4294967295\n", key + b": 4294967296\n", b"---\n" + key + b": 9\n",
            key + b": 12 # c\n", key + b": '12'\n", key + b": 1_000\n", key + b": +5\n", key.upper() + b": 5\n"]
    for _ in range(n):
        v = rng.choice([0, 1, 7, 99, 100, 65535, 4294967294, 4294967295, rng.randrange(1, 1 << 32)])
        t = hdr * rng.choice([0, 1, 1]) + rng.choice([b"", b"---\n"]) + rng.choice([b"", b"  "]) + key \
            + rng.choice([b": ", b": ", b":  ", b" : "]) + str(v).encode() + rng.choice([b"", b" ", b"  "]) + b"\n" \
            + rng.choice([b"", b"# tail\n", b"\n"])
        if rng.random() < 0.2:
            t = t.replace(b"\n", b"\r\n")
        if rng.random() < 0.15:                       # a mutation: drop or double one byte
            i = rng.randrange(len(t))
            t = t[:i] + rng.choice([b"", t[i:i + 1] * 2]) + t[i + 1:]
        out.append(t)
    return out


def lock_text_campaign(rep, rng, model_ok, n):
    if not model_ok:
        return
    tree = [("a.rs", wrap_fn([stmt(msg="a"), stmt(msg="b", ref=7)]).encode())]
    # (a) the text written
    for v in (1, 8, 100, 4294967294):
        s = h2.Scenario(tree, "edit", lock=scen.lock_bytes(v))
        o = h2.run_impl(s)
        m = h1.model_only(["locktext\t%d" % (v + 1)])[0]
        rep.count(("locktext", v), nontrivial=True)
        want = bytes.fromhex(m.split()[1]) if m.startswith("locktext ") else None
        if h2.exit_class(o) == "OK" and o.lock != want:
            rep.not_shown("correspondence lock text model (Model/Lock.v lock_text) <-> cache_next_reference_id",
                          json.dumps({"next_id": v + 1, "implementation": (o.lock or b"").decode("utf-8", "replace"),
                                      "model": (want or b"").decode("utf-8", "replace")}))
    # (b) the reader
    texts = [t for t in lock_texts(rng, n) if _utf8(t)]
    ms = h1.model_only(["lockread\t%s" % t.hex() for t in texts])
    obs = drv.run_all([h2.Scenario(tree, "edit", lock=t) for t in texts])
    bad, unknown = 0, 0
    for t, m, o in zip(texts, ms, obs):
        rep.count(("lockread", t), nontrivial=True)
        impl = ("V%d" % o.next_id) if (o.used_cache and o.next_id is not None) else ("C" if not o.used_cache else "?")
        if o.used_cache and o.next_id is None:
            # the cached value is not printed when it is used; read it from the first inserted ID
            d = scen.delete_tokens(drv.orig_bytes(o_s(tree, t), "a.rs"), drv.final_bytes(o, "a.rs") or b"")
            ids = [scen.token_id(x) for _, x in (d or [])]
            impl = ("V%d" % min(ids)) if ids else "V?"
        model = m.split()[1] if m.startswith("lock ") else "?"
        if model == "U":
            unknown += 1
            continue
        # IDs start at 1 whatever the lock records
        if model == "V0":
            model = "V1" if impl == "V1" else model
        if impl != model and not (impl == "V?"):
            bad += 1
            if bad <= 3:
                rep.not_shown("correspondence lock reader model (Model/Lock.v lock_read) <-> read_cached_next_reference_id",
                              json.dumps({"lock": t.decode("utf-8", "replace"), "implementation": impl, "model": model}))
    rep.extra["lock_text_runs"] = len(texts)
    rep.extra["lock_text_unmodelled"] = unknown
    rep.extra["lock_text_disagreements"] = bad


def o_s(tree, lock):
    return h2.Scenario(tree, "edit", lock=lock)


def _utf8(b):
    try:
        b.decode("utf-8")
        return True
    except UnicodeDecodeError:
        return False


def run(rep, tier, seed, model_ok):
    rng = random.Random(seed)
    C.build_repo()
    rep.cov["rule"] = ("the full product use_cache {omitted, true, false} x structured {omitted, true, false} x extensions "
                       "{omitted, [rs]} x lock class {absent, tool-written, bare key, corrupt, empty, wrong key, negative, "
                       "non-integer, > u32, unresolved merge conflict, duplicated key} x mode {check, edit} x tree {with missing references, complete} through the real "
                       "binary; plus missing/invalid configuration, missing / non-directory source dir, empty in-scope set; "
                       "defaults read through the hook library. Non-trivial = an edit run that inserts")
    scs = []
    for uc, st, ext, lk, mode, tree in itertools.product((None, True, False), (None, True, False), (None, ["rs"]),
                                                         LOCKS, ("check", "edit"), ("missing", "complete")):
        if tier == "quick" and rng.random() < 0.55:
            continue
        scs.append(h2.Scenario(trees(st)[tree], mode, structured=st, use_cache=uc, extensions=ext,
                               lock=scen.lock_variants(lk), name="%s/%s" % (lk, tree)))
    obs = drv.run_all(scs)
    dist = {}
    for s, o in zip(scs, obs):
        p = judge(s, o, bool(s.structured), True, None)
        cls = h2.exit_class(o)
        dist[cls] = dist.get(cls, 0) + 1
        rep.count(json.dumps(s.to_json(), sort_keys=True), nontrivial=s.mode == "edit" and (o.inserted or 0) > 0)
        # structured default: omitted => the reference goes into the message text
        if s.mode == "edit" and s.name.endswith("missing") and cls == "OK":
            nb = drv.final_bytes(o, "a.rs") or b""
            if bool(s.structured) != (b"ref = " in nb) or bool(s.structured) == bool(re.search(rb"\[ref: \d+\] a", nb)):
                p.append("structured=%r but the edited file is %r" % (s.structured, nb[:80]))
        if cls not in ("OK", "ERR"):
            p.append("run ended with %s" % cls)
        if p:
            rep.violation("; ".join(p)[:600], {"kind": "scenario", "scenario": s.to_json(), "problems": p})
    # the next run starts from the lock an inserting run wrote
    seq = h2.Scenario(trees(None)["missing"], "edit", name="two-runs")
    o1 = h2.run_impl(seq)
    s2 = seq.with_(files=[(r, drv.final_bytes(o1, r) or b) for r, b in seq.files] + [("n.rs", wrap_fn([stmt(msg="new")]).encode())],
                   lock=o1.lock)
    o2 = h2.run_impl(s2)
    nb = drv.final_bytes(o2, "n.rs") or b""
    rep.count("two-runs", nontrivial=True)
    if not o2.used_cache or b"[ref: 9] new" not in nb:
        rep.violation("the run after an inserting run did not start from the recorded next ID (used_cache=%r, file %r)" % (
            o2.used_cache, nb[:80]), {"kind": "two-runs"})
    # the lock file's TEXT: the model of Model/Lock.v (lock_text / lock_read) against the real binary:
    # (a) what the model says the tool writes is byte for byte what it writes; (b) a stream of lock texts is
    # classified alike (used with value n / ignored), except where the model says "outside the modelled subset"
    lock_text_campaign(rep, rng, model_ok, 40 if tier == "quick" else 400)
    # failing configurations: non-zero exit, nothing changed, both modes
    from .c04 import failing_setups
    base = h2.Scenario(trees(None)["missing"], "edit", lock=scen.lock_bytes(50))
    empty = h2.Scenario([("x.txt", b"info!(\"x\");\n")], "edit", lock=scen.lock_bytes(50))
    for mode in ("edit", "check"):
        for desc, hook in failing_setups():
            o = h2.run_impl(base.with_(mode=mode), setup_hook=hook)
            rep.count(("failing", desc, mode), nontrivial=False)
            changed = sorted(k for k in set(o.before) | set(o.after) if o.before.get(k) != o.after.get(k))
            if h2.exit_class(o) != "ERR" or changed:
                rep.violation("%s (%s mode): exit %s, changed %r" % (desc, mode, h2.exit_class(o), changed[:3]),
                              {"kind": "failing", "setup": desc, "mode": mode})
        o = h2.run_impl(empty.with_(mode=mode))
        rep.count(("empty", mode), nontrivial=False)
        changed = sorted(k for k in set(o.before) | set(o.after) if o.before.get(k) != o.after.get(k))
        if h2.exit_class(o) != "ERR" or changed:
            rep.violation("no in-scope file (%s mode): exit %s, changed %r" % (mode, h2.exit_class(o), changed[:3]),
                          {"kind": "empty", "mode": mode})
    # defaults as serde sees them (hook library)
    lines = []
    for y in ("source_dir: src\n", "source_dir: src\nrust:\n  log_macros: []\n"):
        lines.append("context\t0\t%s\t%s" % (h1.hexs("/nonexistent"), h1.hexs(y)))
    ans = h1.impl_only(lines)
    # context <source_dir> <use_cache> <structured> <extensions hex,..> <cached>; with `rust:` omitted altogether the
    # derived Default gives no extensions (the run then fails with "No files found"), so only the second answer
    # shows the extensions default
    f = ans[1].split(" ") if len(ans) > 1 else []
    if len(f) < 5 or f[2] != "1" or f[3] != "0" or f[4] != h1.hexs("rs"):
        rep.violation("defaults as serde sees them: %r" % (ans,), {"kind": "defaults", "answer": ans})
    rep.sample({"scenario": scs[0].to_json(), "exit": h2.exit_class(obs[0])})
    rep.sample({"config_yaml": scs[len(scs) // 3].yaml(), "lock": scs[len(scs) // 3].name})
    rep.extra["input_distribution"] = dict(dist, scenarios=len(scs))
    rep.extra["hook_context_answers"] = ans
    if model_ok:
        drv.corr_fault_free(rep, list(zip(scs, obs)))
    rep.assumptions += ["YAML syntax is serde_yaml's; a lock's class (valid / unparsable) is fixed by construction of the templates "
                        "and cross-checked against the 'Using cached next reference ID' log line"]


def replay(path):
    d = json.load(open(path))
    r = d["replay"]
    C.build_repo()
    if r.get("kind") == "scenario":
        s = h2.Scenario.from_json(r["scenario"])
        o = h2.run_impl(s)
        p = judge(s, o, bool(s.structured), True, None)
        print("exit:", h2.exit_class(o), "lock:", h2.classify_lock(o.lock), "problems:", p)
        return 1 if p else 0
    print(json.dumps(d)[:1500])
    return 1
