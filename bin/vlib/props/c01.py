"""C01 -- newly assigned reference IDs are unique and within the documented range."""
import json, random
from .. import common as C
from .. import h1, h2, drv, scen
from ..scen import stmt, wrap_fn, U32


def scenarios(tier, rng):
    out = []
    n = 60 if tier == "quick" else 400
    for structured in (False, True):
        for fs in scen.small_trees(structured, rng, n):
            for lockkind, uc in (("absent", None), ("valid100", None), ("valid100", False), ("maxm1", None), ("valid_doc100", None), ("valid0", None)):
                if lockkind == "maxm1" and rng.random() < 0.7:
                    continue
                if lockkind != "absent" and rng.random() < 0.5 and tier == "quick":
                    continue
                out.append(h2.Scenario(fs, "edit", structured=structured, use_cache=uc,
                                       lock=scen.lock_variants(lockkind), name="small/%s" % lockkind))
    # the boundary of the ID range
    for structured in (False, True):
        def st(ref=None, msg="m"):
            return stmt(msg=msg, ref=ref) if not structured else stmt(msg=msg, kvref=None if ref is None else str(ref))
        for refs in ([U32, None], [U32 - 1, None], [U32 - 1, None, None], [U32 - 2, None, None], [U32, U32 - 1],
                     [0, None], [0, 0, None], [5, None, 9, None, 2], [None, U32], [U32 - 3, None, None, None, None]):
            fs = [("a.rs", wrap_fn([st(r, "m%d" % i) for i, r in enumerate(refs[:2])]).encode()),
                  ("b.rs", wrap_fn([st(r, "n%d" % i) for i, r in enumerate(refs[2:])]).encode())]
            out.append(h2.Scenario(fs, "edit", structured=structured, name="boundary"))
            out.append(h2.Scenario(fs, "edit", structured=structured, use_cache=False, name="boundary/nocache"))
    # random larger trees: many files, IDs spread, gaps
    for t in range(6 if tier == "quick" else 60):
        structured = bool(t % 2)
        fs = []
        for i in range(rng.randint(3, 9)):
            sts = []
            for j in range(rng.randint(0, 7)):
                r = rng.choice([None, None, rng.randint(0, 50), rng.randint(1000, 1010), rng.randint(0, 3)])
                sts.append(stmt(msg="r%d_%d" % (i, j), ref=r) if not structured else
                           stmt(msg="r%d_%d" % (i, j), kvref=None if r is None else str(r),
                                kvs=rng.choice([[], ["k = 1"], ["a = b", 'c = "d;,"']])))
            fs.append(("d%d/f%d.rs" % (i % 3, i), wrap_fn(sts).encode()))
        lock = rng.choice([None, None, scen.lock_bytes(2000)])
        out.append(h2.Scenario(fs, "edit", structured=structured, lock=lock, name="random"))
    return out


def judge(rep, s, o, before_es, after_es):
    """The property predicate on one run of the real binary."""
    order = h2.walk_order(o, s)
    old, new_ids = [], []
    problems = []
    for rel in order:
        ob, nb = drv.orig_bytes(s, rel), drv.final_bytes(o, rel)
        if nb is None:
            problems.append("file %s vanished" % rel)
            continue
        ins = scen.delete_tokens(ob, nb)
        if ins is None:
            problems.append("file %s is not its original plus tokens" % rel)   # C03's business, but IDs cannot be read
            continue
        new_ids += [scen.token_id(t) for _, t in ins]
    for rel in order:
        es = before_es.get(rel)
        old += drv.refs_of_entries(es)
    lockst = h2.classify_lock(s.lock) if s.eff_use_cache() else "A"
    consistent = True
    if lockst.startswith("V"):
        L = int(lockst[1:])
        consistent = all(r < L for r in old)      # "ahead of every ID in the tree"; a lock that records 0 included
    if not consistent:
        return None                      # outside the property's hypothesis
    if len(set(new_ids)) != len(new_ids):
        problems.append("duplicate new IDs %r" % sorted(new_ids))
    clash = sorted(set(new_ids) & set(old))
    if clash:
        problems.append("new IDs %r already carried by recognised statements" % clash)
    bad = [i for i in new_ids if not (1 <= i <= U32)]
    if bad:
        problems.append("IDs outside 1..=4294967295: %r" % bad)
    if not lockst.startswith("V") and new_ids and old and min(new_ids) <= max(old):
        problems.append("no lock in use but new ID %d is not above the largest existing %d" % (min(new_ids), max(old)))
    cls = h2.exit_class(o)
    if cls in ("PANIC", "HANG") or cls.startswith("SIG"):
        problems.append("run ended with %s" % cls)
    # exhausted range => the run fails: when exit is 0 every statement lacking a reference got one
    if cls == "OK":
        for rel in order:
            es = after_es.get(rel)
            if isinstance(es, list) and any(e["ref"] is None and e["usable"] for e in es):
                problems.append("exit 0 but %s still has a statement without reference" % rel)
    return problems


def run(rep, tier, seed, model_ok):
    rng = random.Random(seed)
    C.build_repo()
    scs = scenarios(tier, rng)
    rep.cov["rule"] = ("edit runs of the real binary on small-scope trees (1-3 files x 0-2 statements over 7 statement "
                       "shapes incl. existing IDs 0/3/7/4294967294, unusable refs, targets, key-values) x lock "
                       "{absent, valid ahead, disabled, at the boundary} x both styles; ID-range boundary trees; random "
                       "larger trees; each compared with the model and judged by the property predicate (IDs read back "
                       "from the byte diff and the hook library). Non-trivial = at least one ID was inserted; "
                       "distinct by (tree, config, lock)")
    obs = drv.run_all(scs)
    if tier == "thorough":
        C.build_repo(release=True)
        rel_scs = [s for s in scs if s.name.startswith("boundary")]
        obs_rel = drv.run_all(rel_scs, release=True)
    else:
        rel_scs, obs_rel = [], []
    pairs = list(zip(scs, obs)) + list(zip(rel_scs, obs_rel))
    # read references back, before and after, through the implementation's own finder
    dist = {"OK": 0, "ERR": 0, "other": 0}
    jobs_b, jobs_a, keys = {}, {}, []
    for structured in (False, True):
        texts_b, texts_a, where = [], [], []
        for n, (s, o) in enumerate(pairs):
            if s.eff_structured() != structured:
                continue
            for rel in h2.walk_order(o, s):
                texts_b.append(drv.orig_bytes(s, rel))
                texts_a.append(drv.final_bytes(o, rel) or b"")
                where.append((n, rel))
        eb = drv.entries_of(texts_b, structured)
        ea = drv.entries_of(texts_a, structured)
        for (n, rel), x, y in zip(where, eb, ea):
            jobs_b.setdefault(n, {})[rel] = x
            jobs_a.setdefault(n, {})[rel] = y
    for n, (s, o) in enumerate(pairs):
        problems = judge(rep, s, o, jobs_b.get(n, {}), jobs_a.get(n, {}))
        cls = h2.exit_class(o)
        dist[cls if cls in dist else "other"] += 1
        rep.count(json.dumps(s.to_json(), sort_keys=True), nontrivial=(o.inserted or 0) > 0)
        if problems:
            rep.violation("; ".join(problems)[:600], {"kind": "scenario", "scenario": s.to_json(),
                                                      "release": n >= len(scs), "problems": problems})
    rep.sample({"scenario": scs[0].to_json(), "exit": h2.exit_class(obs[0])})
    rep.sample({"scenario": scs[-1].name, "files": [r for r, _ in scs[-1].files], "inserted": obs[-1].inserted})
    rep.extra["input_distribution"] = dict(dist, scenarios=len(scs), release_runs=len(rel_scs))
    if model_ok:
        drv.corr_fault_free(rep, list(zip(scs, obs)))
    rep.assumptions += ["usize/u32 sums of missing-reference counts do not overflow (needs 2^32 statements)",
                        "a hand-written lock value 0 is not a 'consistent' lock (Breadlog itself never writes one: C02 invariant)"]


def replay(path):
    d = json.load(open(path))
    r = d["replay"]
    s = h2.Scenario.from_json(r["scenario"])
    C.build_repo(release=bool(r.get("release")))
    o = h2.run_impl(s, release=bool(r.get("release")))
    print("exit:", h2.exit_class(o), "inserted:", o.inserted)
    for rel in h2.walk_order(o, s):
        print(rel, drv.final_bytes(o, rel))
    print("recorded problems:", r.get("problems"))
    return 1
