"""C06 -- after a successful edit the tree is a fixpoint and every insertion round-trips."""
import json, os, random
from .. import common as C
from .. import h1, h2, drv, gen, scen


def scenarios(tier, rng):
    quick = tier == "quick"
    out = []
    for structured in (False, True):
        for _ in range(40 if quick else 500):
            n = rng.randint(1, 4)
            fs = [("d%d/g%d.rs" % (i % 2, i), gen.cfl_file(rng, structured, rich=rng.random() < 0.7)[0]) for i in range(n)]
            out.append(h2.Scenario(fs, "edit", structured=structured, macros=gen.MACROS_ARG,
                                   lock=rng.choice([None, scen.lock_bytes(1000000)]), name="generated"))
        # every combination of key-value list shape x target x path form x message kind, once
        out.append(h2.Scenario([("matrix.rs", gen.feature_matrix().encode())], "edit", structured=structured,
                               macros=gen.MACROS_ARG, name="feature-matrix"))
        for fs in scen.small_trees(structured, rng, 12 if quick else 150):
            out.append(h2.Scenario(fs, "edit", structured=structured, name="small"))
    corpus = h1.corpus_files(max_bytes=80000)
    rng.shuffle(corpus)
    corpus = corpus[:40 if quick else 400]
    for i in range(0, len(corpus), 10):
        fs = [("c%d/%s" % (j, os.path.basename(p)), b) for j, (p, b) in enumerate(corpus[i:i + 10])]
        out.append(h2.Scenario(fs, "edit", structured=bool((i // 10) % 2), name="corpus"))
    return out


def judge(s, o1, oc, o2, es_after):
    problems = []
    if h2.exit_class(o1) != "OK":
        return problems, 0                       # the property speaks about edit runs that exit 0
    order = h2.walk_order(o1, s)
    if h2.exit_class(oc) != "OK":
        problems.append("--check after a successful edit exits %s (reports %r)" % (h2.exit_class(oc), (oc.missing + oc.unusable)[:4]))
    for rel in order:
        if drv.final_bytes(o2, rel) != drv.final_bytes(o1, rel):
            problems.append("a second edit run changed %s" % rel)
    l1, l2 = h2.classify_lock(o1.lock), h2.classify_lock(o2.lock)
    if l1 != l2:
        problems.append("the second edit run changed the lock value from %s to %s" % (l1, l2))
    if h2.exit_class(o2) != "OK":
        problems.append("the second edit run exits %s" % h2.exit_class(o2))
    n = 0
    for rel in order:
        ob, nb = drv.orig_bytes(s, rel), drv.final_bytes(o1, rel)
        ins = scen.delete_tokens(ob, nb) if nb is not None else None
        if ins is None:
            problems.append("%s is not its original plus tokens" % rel)
            continue
        es = es_after.get(rel)
        shift = 0
        for off, tok in ins:
            n += 1
            i = scen.token_id(tok)
            # where the reference now stands in the NEW text
            newpos = off + shift
            shift += len(tok)
            if tok.startswith(b"[ref: "):
                where = newpos                      # the message now starts with the token
                hit = [e for e in es if e["pos"] == where] if isinstance(es, list) else []
            else:
                where = newpos + len(b"ref = ")     # the value of the new key-value
                hit = [e for e in es if e["pos"] == where] if isinstance(es, list) else []
            if not hit or hit[0]["ref"] != i:
                problems.append("%s: the statement that received ID %d at offset %d is read back as %r" % (
                    rel, i, off, hit[0] if hit else "not recognised"))
    return problems, n


def run(rep, tier, seed, model_ok):
    rng = random.Random(seed)
    C.build_repo()
    scs = scenarios(tier, rng)
    rep.cov["rule"] = ("edit, then --check, then a second edit of the real binary on generated canonical trees (both styles; "
                       "targets, key-values, modifiers, directives, pre-existing references, layouts), small-scope trees and "
                       "the repository's Rust corpus: after an edit that exits 0 the check must exit 0, the second edit must "
                       "change no byte and leave the lock value as it is, and every statement that received an ID must be read "
                       "back (hook library) with exactly that ID at that place. Non-trivial = first edit inserted something")
    o1 = drv.run_all(scs, timeout=300)
    s2 = []
    for s, o in zip(scs, o1):
        order = h2.walk_order(o, s)
        files2 = [(rel, drv.final_bytes(o, rel) if drv.final_bytes(o, rel) is not None else b) for rel, b in s.files]
        s2.append(s.with_(files=files2, lock=o.lock))
    oc = drv.run_all([s.with_(mode="check") for s in s2], timeout=300)
    o2 = drv.run_all(s2, timeout=300)
    dist = {"inserting": 0, "nothing_to_do": 0, "first_edit_failed": 0, "ids_read_back": 0}
    for structured in (False, True):
        texts, where = [], []
        for n, (s, o) in enumerate(zip(scs, o1)):
            if s.eff_structured() != structured:
                continue
            for rel in h2.walk_order(o, s):
                nb = drv.final_bytes(o, rel)
                if nb is not None:
                    texts.append(nb)
                    where.append((n, rel))
        es = drv.entries_of(texts, structured, None) if False else None
        # entries need the scenario's own macro list
        by_macros = {}
        for (n, rel), t in zip(where, texts):
            by_macros.setdefault(scs[n].macros, []).append((n, rel, t))
        after = {}
        for macros, items in by_macros.items():
            ans = drv.entries_of([t for _, _, t in items], structured, macros)
            for (n, rel, _), e in zip(items, ans):
                after.setdefault(n, {})[rel] = e
        for n, (s, a, b, c) in enumerate(zip(scs, o1, oc, o2)):
            if s.eff_structured() != structured:
                continue
            p, nids = judge(s, a, b, c, after.get(n, {}))
            cls = h2.exit_class(a)
            key = "first_edit_failed" if cls != "OK" else ("inserting" if nids else "nothing_to_do")
            dist[key] += 1
            dist["ids_read_back"] += nids
            rep.count(json.dumps(s.to_json(), sort_keys=True)[:3000], nontrivial=nids > 0)
            if p:
                rep.violation("; ".join(p)[:700], {"kind": "scenario", "scenario": s.to_json(), "problems": p})
            if cls not in ("OK", "ERR"):
                rep.violation("first edit ended with %s" % cls, {"kind": "scenario", "scenario": s.to_json()})
    rep.sample({"tree": scs[0].name, "file": scs[0].files[0][1].decode("utf-8", "replace")[:300],
                "after_edit": (drv.final_bytes(o1[0], scs[0].files[0][0]) or b"").decode("utf-8", "replace")[:300]})
    rep.extra["input_distribution"] = dict(dist, scenarios=len(scs))
    if model_ok:
        small = [(s, o) for s, o in zip(s2, o2) if sum(len(b) for _, b in s.files) <= 40000]
        drv.corr_fault_free(rep, small, label="second edit run")
    rep.assumptions += ["'the configured macros are used the way the log crate accepts them': generated statements are canonical; "
                        "corpus files are real code"]


def replay(path):
    d = json.load(open(path))
    r = d["replay"]
    C.build_repo()
    s = h2.Scenario.from_json(r["scenario"])
    o1 = h2.run_impl(s)
    print("first edit:", h2.exit_class(o1), "inserted", o1.inserted)
    print("recorded problems:", r.get("problems"))
    return 1
