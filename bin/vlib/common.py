"""Shared machinery of /verif/bin/check: builds, Gen regeneration, Coq, evidence, verdicts."""
import fcntl, hashlib, json, os, re, shutil, subprocess, sys, time

VERIF = os.path.dirname(os.path.dirname(os.path.dirname(os.path.abspath(__file__))))
REPO = os.environ.get("VERIF_REPO", "/repo")
BUILD = os.path.join(VERIF, "build")
COQ = os.path.join(VERIF, "coq")
THEORIES = os.path.join(COQ, "theories")
CARGO_T = os.path.join(BUILD, "cargo")
REPO_T = os.path.join(BUILD, "repo-target")
RUN = os.path.join(BUILD, "run")
HOOKCLI = os.path.join(CARGO_T, "debug", "hookcli")
TRANSLATE = os.path.join(CARGO_T, "debug", "translate")
MODELRUN = os.path.join(BUILD, "extract", "modelrun")
SHIM = os.path.join(BUILD, "shim.so")
BREADLOG = os.path.join(REPO_T, "debug", "breadlog")
BREADLOG_REL = os.path.join(REPO_T, "release", "breadlog")
NCPU = 16

ENV = dict(os.environ, CARGO_NET_OFFLINE="true", CARGO_TERM_COLOR="never")


class Lock:
    def __init__(self, name):
        os.makedirs(BUILD, exist_ok=True)
        self.path = os.path.join(BUILD, name + ".lock")

    def __enter__(self):
        self.f = open(self.path, "w")
        fcntl.flock(self.f, fcntl.LOCK_EX)
        return self

    def __exit__(self, *a):
        fcntl.flock(self.f, fcntl.LOCK_UN)
        self.f.close()


def sh(cmd, timeout=1800, cwd=None, env=None, input=None):
    r = subprocess.run(cmd, cwd=cwd, env=env or ENV, input=input, capture_output=True,
                       text=True, timeout=timeout)
    return r.returncode, r.stdout, r.stderr


class BuildError(Exception):
    def __init__(self, what, log):
        super().__init__(what)
        self.what = what
        self.log = log


def build_harness():
    """hook library + hook client + translators, from /repo's working tree, hooks on."""
    with Lock("cargo"):
        env = dict(ENV, RUSTFLAGS="--cfg breadlog_verif", CARGO_TARGET_DIR=CARGO_T)
        rc, out, err = sh(["cargo", "build", "--offline", "-q"], cwd=os.path.join(VERIF, "harness"), env=env)
        if rc != 0:
            raise BuildError("harness/hook library does not build", err[-4000:])


def build_repo(release=False):
    """the real binary, hooks off, exactly as the tree says."""
    with Lock("cargo-repo"):
        env = dict(ENV, CARGO_TARGET_DIR=REPO_T)
        cmd = ["cargo", "build", "--offline", "-q", "--bin", "breadlog"] + (["--release"] if release else [])
        rc, out, err = sh(cmd, cwd=REPO, env=env)
        if rc != 0:
            raise BuildError("breadlog does not build", err[-4000:])


def build_shim():
    with Lock("shim"):
        src = os.path.join(VERIF, "shim", "shim.c")
        if not os.path.exists(SHIM) or os.path.getmtime(SHIM) < os.path.getmtime(src):
            rc, out, err = sh(["gcc", "-O2", "-shared", "-fPIC", "-o", SHIM, src, "-ldl", "-lpthread"])
            if rc != 0:
                raise BuildError("shim does not build", err[-4000:])


def write_if_changed(path, text):
    try:
        if open(path).read() == text:
            return False
    except FileNotFoundError:
        pass
    with open(path, "w") as f:
        f.write(text)
    return True


def regen():
    """Regenerate Gen/*.v from the current /repo.  Returns (ok, messages)."""
    msgs = []
    ok = True
    with Lock("coq"):
        gen = os.path.join(THEORIES, "Gen")
        for sub, arg, out in (("grammar", os.path.join(REPO, "src/parser/rust_grammar.pest"), "Grammar.v"),
                              ("regexes", REPO, "Regexes.v"), ("consts", REPO, "Consts.v")):
            rc, o, e = sh([TRANSLATE, sub, arg])
            if rc != 0:
                ok = False
                msgs.append("translator %s: %s" % (sub, e.strip()[-600:]))
                continue
            if write_if_changed(os.path.join(gen, out), o):
                msgs.append("Gen/%s changed" % out)
        # Unicode tables from the hook library
        from . import unicode_gen
        try:
            if unicode_gen.generate(HOOKCLI, os.path.join(gen, "Unicode.v")):
                msgs.append("Gen/Unicode.v changed")
        except Exception as ex:  # noqa
            ok = False
            msgs.append("unicode dump: %s" % ex)
    return ok, msgs


def coq_makefile():
    mk = os.path.join(COQ, "Makefile")
    cp = os.path.join(COQ, "_CoqProject")
    if not os.path.exists(mk) or os.path.getmtime(mk) < os.path.getmtime(cp):
        rc, o, e = sh(["coq_makefile", "-f", "_CoqProject", "-o", "Makefile"], cwd=COQ)
        if rc != 0:
            raise BuildError("coq_makefile failed", e)


def coq_make(targets, timeout=2400):
    """Full .vo build of the given targets (paths relative to coq/).  Returns (ok, log)."""
    with Lock("coq"):
        coq_makefile()
        rc, o, e = sh(["timeout", str(timeout), "make", "-j%d" % NCPU] + targets, cwd=COQ, timeout=timeout + 60)
        return rc == 0, (o + e)[-6000:]


def theorem_names(prop_file):
    src = open(prop_file).read()
    # strip comments (non-nested is enough for our files)
    src = re.sub(r"\(\*.*?\*\)", "", src, flags=re.S)
    return re.findall(r"^\s*(?:Theorem|Corollary)\s+([A-Za-z0-9_']+)", src, flags=re.M)


ALLOWED_AXIOMS = set()   # the allow-list starts empty: every property theorem is axiom-free


def print_assumptions(pid, names):
    """Runs Print Assumptions on every theorem of Properties/<pid>.v; returns {name: text}."""
    d = os.path.join(BUILD, "assume")
    os.makedirs(d, exist_ok=True)
    f = os.path.join(d, "%s_assume.v" % pid)
    body = "From Breadlog Require Import Properties.%s.\n" % pid
    for n in names:
        body += 'Goal True. idtac "@@ %s". Abort.\nPrint Assumptions %s.\n' % (n, n)
    open(f, "w").write(body)
    rc, o, e = sh(["coqc", "-Q", THEORIES, "Breadlog", "-w", "none", f], cwd=d, timeout=900)
    if rc != 0:
        return None, (o + e)[-3000:]
    res = {}
    cur = None
    for line in o.splitlines():
        if line.startswith("@@ "):
            cur = line[3:].strip()
            res[cur] = ""
        elif cur is not None:
            res[cur] += line + "\n"
    return res, ""


FORBIDDEN = re.compile(r"\b(Admitted|admit|Axiom|Axioms|Parameter|Parameters|Conjecture|Conjectures|"
                       r"Admit Obligations|Unset Guard Checking|Unset Positivity Checking|"
                       r"Unset Universe Checking|bypass_check|type-in-type|impredicative-set|"
                       r"Guard Checking|Positivity Checking|Universe Checking)\b")
SECTION_LOCAL = re.compile(r"^\s*(?:Local\s+|Global\s+)?(Variable|Variables|Hypothesis|Hypotheses|Context)\b")


def forbidden_scan():
    """grep of the whole development for declarations / switches that are not allowed.
    Variable / Hypothesis / Context are allowed inside a Section only (there they are ordinary
    lambda-abstractions once the section is closed); outside they would declare axioms."""
    hits = []
    for root, _, files in os.walk(COQ):
        for fn in files:
            if not fn.endswith(".v") and fn != "_CoqProject":
                continue
            p = os.path.join(root, fn)
            src = open(p).read()
            nocom = re.sub(r"\(\*.*?\*\)", lambda m_: re.sub(r"[^\n]", " ", m_.group(0)), src, flags=re.S)
            for m_ in FORBIDDEN.finditer(nocom):
                line = nocom.count("\n", 0, m_.start()) + 1
                hits.append("%s:%d: %s" % (os.path.relpath(p, VERIF), line, m_.group(1)))
            depth = 0
            for ln, text in enumerate(nocom.split("\n"), 1):
                if re.match(r"^\s*Section\s+\w+\s*\.", text):
                    depth += 1
                elif re.match(r"^\s*End\s+\w+\s*\.", text):
                    depth = max(0, depth - 1)
                else:
                    m_ = SECTION_LOCAL.match(text)
                    if m_ and depth == 0:
                        hits.append("%s:%d: %s outside a section" % (os.path.relpath(p, VERIF), ln, m_.group(1)))
    return hits


def proof_step(pid, extra_targets=(), tier="quick"):
    """Regenerated Gen + make of the property's theorems + assumptions + forbidden grep.
    Returns a dict describing the proof side of the check."""
    t0 = time.time()
    info = {"ok": True, "messages": [], "theorems": [], "assumptions": {}, "checker_cmd": ""}
    prop_v = os.path.join(THEORIES, "Properties", pid + ".v")
    names = theorem_names(prop_v)
    info["theorems"] = names
    target = "theories/Properties/%s.vo" % pid
    info["checker_cmd"] = ("translate grammar|regexes|consts > coq/theories/Gen/*.v && "
                           "make -C coq %s (coqc 8.16.1, full .vo) && coqc Print Assumptions" % target)
    ok, log = coq_make([target] + list(extra_targets))
    if not ok:
        info["ok"] = False
        m_ = re.search(r'File "([^"]+)", line (\d+)[^\n]*\n(?:.*\n){0,12}?Error:?[^\n]*(?:\n[^\n]*){0,6}', log)
        info["messages"].append("coq build failed: " + (m_.group(0)[:1500] if m_ else log[-1500:]))
        info["wall_s"] = time.time() - t0
        return info
    ass, err = print_assumptions(pid, names)
    if ass is None:
        info["ok"] = False
        info["messages"].append("Print Assumptions failed: " + err)
    else:
        for n, a in ass.items():
            a = a.strip()
            info["assumptions"][n] = a
            if "Closed under the global context" in a:
                continue
            axioms = re.findall(r"^([A-Za-z0-9_.']+)\s*:", a, flags=re.M)
            bad = [x for x in axioms if x not in ALLOWED_AXIOMS]
            if bad or not axioms:
                info["ok"] = False
                info["messages"].append("theorem %s depends on axioms not in the allow-list: %s" % (n, a[:300]))
    hits = forbidden_scan()
    if hits:
        info["ok"] = False
        info["messages"].append("forbidden declarations: " + "; ".join(hits[:10]))
    if tier == "thorough" and info["ok"]:
        # the independent checker re-checks the compiled property file and everything it depends on
        rc, o, e = sh(["timeout", "1500", "coqchk", "-silent", "-o", "-Q", "theories", "Breadlog",
                       "Breadlog.Properties.%s" % pid], cwd=COQ, timeout=1600)
        summary = (o + e)
        want = ["Axioms: <none>", "type-in-type: <none>", "unsafe (co)fixpoints: <none>", "positivity is assumed: <none>"]
        missing = [w for w in want if w not in summary]
        info["coqchk"] = "ok" if rc == 0 and not missing else "failed"
        info["checker_cmd"] += " && coqchk -silent -o Breadlog.Properties.%s" % pid
        if rc != 0 or missing:
            info["ok"] = False
            info["messages"].append("coqchk: rc=%d, not reported as <none>: %s; %s" % (rc, missing, summary[-800:]))
    info["wall_s"] = time.time() - t0
    return info


def build_model_runner():
    """Extraction + OCaml build of the executable model (only when the model changed)."""
    # everything Extract.v may import: the whole hand-written model and the generated files
    targets = sorted("theories/%s/%s.vo" % (sub, f[:-2]) for sub in ("Model", "Gen")
                     for f in os.listdir(os.path.join(THEORIES, sub)) if f.endswith(".v"))
    ok, log = coq_make(targets)
    if not ok:
        raise BuildError("the model does not compile", log)
    with Lock("extract"):
        d = os.path.join(BUILD, "extract")
        os.makedirs(d, exist_ok=True)
        deps = [os.path.join(COQ, "extract", "Extract.v"), os.path.join(VERIF, "ocaml", "driver.ml")]
        for root, _, files in os.walk(THEORIES):
            deps += [os.path.join(root, f) for f in files if f.endswith(".vo") and ("/Model" in root or "/Gen" in root)]
        newest = max(os.path.getmtime(p) for p in deps)
        if os.path.exists(MODELRUN) and os.path.getmtime(MODELRUN) >= newest:
            return
        rc, o, e = sh(["coqc", "-Q", THEORIES, "Breadlog", "-w", "none", os.path.join(COQ, "extract", "Extract.v")], cwd=d, timeout=900)
        if rc != 0:
            raise BuildError("extraction failed", (o + e)[-3000:])
        shutil.copy(os.path.join(VERIF, "ocaml", "driver.ml"), os.path.join(d, "driver.ml"))
        rc, o, e = sh(["ocamlfind", "ocamlopt", "-w", "-a", "-inline", "100",
                       "model.mli", "model.ml", "driver.ml", "-o", "modelrun.new"], cwd=d, timeout=900)
        if rc != 0:
            raise BuildError("OCaml build of the model runner failed", (o + e)[-3000:])
        os.replace(os.path.join(d, "modelrun.new"), MODELRUN)


# ---------------------------------------------------------------------------------------
# known findings, verdicts, evidence

def load_findings():
    out = {"finding": [], "fixed": []}
    p = os.path.join(VERIF, "KNOWN_FINDINGS.txt")
    if not os.path.exists(p):
        return out
    for line in open(p):
        line = line.strip()
        if not line or line.startswith("#"):
            continue
        kind, _, rest = line.partition(":")
        kind = kind.strip()
        fields = dict(re.findall(r"(\w+)=(\S+)", rest))
        fields["_text"] = rest.strip()
        if kind in out:
            out[kind].append(fields)
    return out


class Report:
    """Collects what one check run did and turns it into exit status, lines and evidence."""

    def __init__(self, pid, tier, seed):
        self.pid, self.tier, self.seed = pid, tier, seed
        self.t0 = time.time()
        self.violations = []        # (description, replay dict)
        self.known = []             # strings
        self.unshown = []           # proof / correspondence breakages (no failing input by themselves)
        self.cov = {"evaluations": 0, "distinct_nontrivial": 0, "samples": [], "rule": ""}
        self.assumptions = []
        self.trusted = []
        self.proof = None
        self.extra = {}
        self._distinct = set()

    def count(self, case_key, nontrivial=True):
        self.cov["evaluations"] += 1
        if nontrivial:
            h = hashlib.sha1(repr(case_key).encode()).hexdigest()
            if h not in self._distinct:
                self._distinct.add(h)
                self.cov["distinct_nontrivial"] += 1

    def sample(self, s, limit=6):
        if len(self.cov["samples"]) < limit:
            self.cov["samples"].append(s)

    def violation(self, desc, replay, finding_class=None):
        """finding_class: name of the known-finding class this input belongs to (or None)."""
        findings = load_findings()["finding"]
        for f in findings:
            if f.get("property") == self.pid and finding_class is not None and f.get("class") == finding_class:
                msg = "KNOWN-FINDING: property=%s id=%s class=%s %s" % (self.pid, f.get("id", "?"), finding_class, desc)
                if msg not in self.known:
                    self.known.append(msg)
                return False
        self.violations.append((desc, replay))
        return True

    def not_shown(self, what, detail):
        # keep the first few details per kind, count the rest
        n = sum(1 for w, _ in self.unshown if w == what)
        self.unshown_counts = getattr(self, "unshown_counts", {})
        self.unshown_counts[what] = self.unshown_counts.get(what, 0) + 1
        if n < 3:
            self.unshown.append((what, detail))

    def finish(self):
        wall = time.time() - self.t0
        os.makedirs(os.path.join(VERIF, "evidence"), exist_ok=True)
        os.makedirs(os.path.join(VERIF, "build", "replay"), exist_ok=True)
        lines = []
        for k in self.known:
            lines.append(k)
        status = 0
        for suffix in ("violation", "not_shown"):
            try:
                os.remove(os.path.join(VERIF, "build", "replay", "%s_%s.json" % (self.pid, suffix)))
            except FileNotFoundError:
                pass
        if self.violations:
            status = 1
            desc, replay = self.violations[0]
            path = os.path.join(VERIF, "build", "replay", "%s_violation.json" % self.pid)
            json.dump({"property": self.pid, "what": desc, "replay": replay,
                       "all": [d for d, _ in self.violations[:20]]}, open(path, "w"), indent=1)
            lines.append("VIOLATION property=%s replay=%s" % (self.pid, path))
        elif self.unshown:
            status = 1
            path = os.path.join(VERIF, "build", "replay", "%s_not_shown.json" % self.pid)
            json.dump({"property": self.pid,
                       "no_longer_checks": [{"what": w, "detail": d} for w, d in self.unshown],
                       "note": "no concrete failing input was found by the search of this run"},
                      open(path, "w"), indent=1)
            lines.append("VIOLATION property=%s replay=%s no-failing-input-found" % (self.pid, path))
        cov = dict(self.cov)
        if self.proof is not None:
            cov["obligations"] = len(self.proof["theorems"])
            cov["discharged"] = len(self.proof["theorems"]) if self.proof["ok"] else 0
            cov["checker_cmd"] = self.proof["checker_cmd"]
            cov["theorems"] = self.proof["theorems"]
            cov["print_assumptions"] = self.proof["assumptions"]
            if "coqchk" in self.proof:
                cov["coqchk"] = self.proof["coqchk"] + " (coqchk -silent -o: Axioms <none>, no type-in-type, no unsafe fixpoints, no assumed positivity)"
            cov["proof_messages"] = self.proof["messages"]
        cov["trusted_base"] = self.trusted
        cov["known_findings_reported"] = self.known
        cov["not_shown"] = getattr(self, "unshown_counts", {})
        cov.update(self.extra)
        if cov["distinct_nontrivial"] < 2 and cov["evaluations"] >= 2:
            pass
        ev = {"property_id": self.pid, "tier": self.tier, "seed": self.seed, "level": "proof",
              "coverage": cov, "assumptions": self.assumptions, "wall_s": round(wall, 2),
              "violations": len(self.violations) + (1 if (self.unshown and not self.violations) else 0)}
        json.dump(ev, open(os.path.join(VERIF, "evidence", "%s.json" % self.pid), "w"), indent=1, default=str)
        for l in lines:
            print(l)
        sys.stdout.flush()
        return status


COMMON_TRUSTED = [
    "Coq 8.16.1 kernel; vm_compute (used for witness lemmas and table facts); no native_compute",
    "axioms: none (Print Assumptions of every property theorem must say 'Closed under the global context')",
    "translators /verif/harness/translate: pest_meta 2.7.12 parse_and_optimize, regex-syntax 0.8.4 HIR, syn 2.0.77 + my printers to Gallina",
    "Model/Peg.v: hand transliteration of the pest 2.7.12 runtime, validated against real pest pair trees (hook library)",
    "extraction with ExtrOcamlBasic + ExtrOcamlString only (bool, option, unit, list, prod, sumbool, sumor, ascii->char, string->char list); no Extract Constant; OCaml driver ocaml/driver.ml (UTF-8 decode, printing)",
    "correspondence harness: guarded hook library (--cfg breadlog_verif), hookcli, LD_PRELOAD shim, python orchestration",
]
