"""Scenario and source-text generators shared by the property checks.  Every random choice comes
from the random.Random instance handed in (seeded from VERIF_SEED)."""
import itertools, re
from .h2 import Scenario, lock_bytes

U32 = 4294967295

# ---- statement building blocks (unstructured / structured) ---------------------------------

def stmt(macro="info", qualified=False, target=None, kvs=None, msg="hello {}", args=", x", ref=None,
         kvref=None, sep=" "):
    """One log statement in canonical form.  ref: number to put into the message; kvref: text of a
    `ref = <kvref>` key-value to put first."""
    name = ("log::" if qualified else "") + macro
    parts = []
    if target is not None:
        parts.append('target: "%s",' % target)
    kv = list(kvs or [])
    if kvref is not None:
        kv = ["ref = %s" % kvref] + kv
    if kv:
        parts.append(("," + sep).join(kv) + ";")
    m = msg if ref is None else "[ref: %d] %s" % (ref, msg)
    parts.append('"%s"' % m)
    return "%s!(%s%s);" % (name, sep.join(parts), args)


def wrap_fn(stmts, name="f", indent="    ", nl="\n"):
    return "fn %s() {%s" % (name, nl) + "".join(indent + s + nl for s in stmts) + "}" + nl


TOKEN_RE = re.compile(rb"\[ref: [0-9]+\] |ref = [0-9]+[;,] ")


def delete_tokens(orig, new):
    """If `new` is `orig` with reference tokens inserted, returns the list of (offset in orig, token);
    otherwise None.  Linear two-pointer walk: a token in `new` that `orig` does not have at the same
    place is an insertion; everything else must be equal."""
    i = j = 0
    ins = []
    n, m = len(orig), len(new)
    while j < m:
        mt = TOKEN_RE.match(new, j)
        if mt and orig[i:i + len(mt.group(0))] != mt.group(0):
            ins.append((i, mt.group(0)))
            j = mt.end()
            continue
        if i < n and orig[i] == new[j]:
            i += 1
            j += 1
            continue
        return None
    return ins if i == n else None


def token_id(tok):
    return int(re.search(rb"[0-9]+", tok).group(0))


def line_col_to_offset(data, line, col):
    """Byte offset of (1-based line, 1-based column counted in characters); CR LF and LF are line
    breaks, a lone CR is a character.  None when there is no such place."""
    try:
        text = data.decode("utf-8")
    except UnicodeDecodeError:
        return None
    l, c, off = 1, 1, 0
    i = 0
    while i <= len(text):
        if l == line and c == col:
            return len(text[:i].encode("utf-8"))
        if i == len(text):
            break
        ch = text[i]
        if ch == "\r" and i + 1 < len(text) and text[i + 1] == "\n":
            i += 2
            l, c = l + 1, 1
        elif ch == "\n":
            i += 1
            l, c = l + 1, 1
        else:
            i += 1
            c += 1
    return None


# ---- small-scope trees ------------------------------------------------------------------------

def small_statements(structured):
    """Statement shapes used by the small-scope trees: (text, has_usable_reference or None if unusable)."""
    if structured:
        return [stmt(msg="a"), stmt(kvs=["k = 1"], msg="b"), stmt(kvref="7", msg="c"),
                stmt(kvref="3", kvs=["k = v"], msg="d"), stmt(kvref='"x"', msg="e"),
                stmt(target="t", msg="g"), stmt(kvref="4294967294", msg="h")]
    return [stmt(msg="a"), stmt(msg="b", ref=7), stmt(msg="c", ref=0), stmt(target="t", msg="d"),
            stmt(kvs=["k = 1"], msg="e"), stmt(msg="f", ref=3), stmt(msg="h", ref=4294967294)]


def small_trees(structured, rng, limit):
    """Trees with 1..3 files of 0..3 statements over the small statement set; deterministic order,
    then thinned to `limit` with the rng."""
    sts = small_statements(structured)
    files = [[]] + [[a] for a in sts] + [[a, b] for a, b in itertools.product(sts[:5], sts[:5])]
    trees = []
    for f1 in files:
        trees.append([f1])
    for f1, f2 in itertools.product(files[:9], files[:9]):
        trees.append([f1, f2])
    for f1, f2, f3 in itertools.product(files[1:4], files[0:4], files[1:4]):
        trees.append([f1, f2, f3])
    if len(trees) > limit:
        head = trees[:limit // 3]
        rest = rng.sample(trees[limit // 3:], limit - len(head))
        trees = head + rest
    out = []
    for t in trees:
        fs = []
        for i, sl in enumerate(t):
            fs.append(("%s.rs" % "abc"[i] if i else "a.rs", wrap_fn(sl, name="f%d" % i).encode()))
        # distinct names, one in a sub-directory
        fs = [(("sub/" if i == 2 else "") + "f%d.rs" % i, b) for i, (_, b) in enumerate(fs)]
        out.append(fs)
    # always included: a file that cannot be read as text at the first, a middle and the last place of a
    # five-file tree whose other files need references (it is reported and skipped; the others are processed)
    names = ["a0.rs", "b1.rs", "m/c2.rs", "m/d3.rs", "z4.rs"]
    for bad in (0, 2, 4):
        fs = []
        for i, nme in enumerate(names):
            if i == bad:
                fs.append((nme, b"// caf\xe9\nfn f() { info!(\"latin-1\"); }\n"))
            else:
                fs.append((nme, wrap_fn([sts[0], sts[min(i + 1, len(sts) - 1)]], name="g%d" % i).encode()))
        out.append(fs)
    return out


def lock_variants(kind):
    """kind -> bytes or None"""
    return {
        "absent": None,
        "valid100": lock_bytes(100),
        "valid5000000000": b"next_reference_id: 5000000000\n",
        "corrupt": b"---\n: this is not a lock\n  -",
        "empty": b"",
        "wrongkey": b"next_id: 5\n",
        "negative": b"next_reference_id: -4\n",
        "noninteger": b"next_reference_id: abc\n",
        "bare": b"next_reference_id: 42\n",
        "valid0": b"next_reference_id: 0\n",          # a lock a person (not the tool) wrote: IDs still start at 1
        # valid locks that are LONGER than what the tool writes: explicit document start (older layout),
        # CRLF line ends, trailing comment lines left by a hand merge
        "valid_doc100": lock_bytes(100).replace(b"next_reference_id", b"---\nnext_reference_id"),
        "valid_crlf100": lock_bytes(100).replace(b"\n", b"\r\n"),
        "valid_tail100": lock_bytes(100) + b"# merged by hand\n# keep this line\n",
        # not YAML a lock can be, although a line of it looks like one: unresolved merge, duplicated key
        "conflict": b"<<<<<<< HEAD\nnext_reference_id: 3\n=======\nnext_reference_id: 5\n>>>>>>> branch\n",
        "dupkey": b"next_reference_id: 3\nnext_reference_id: 5\n",
        "max": lock_bytes(U32),
        "maxm1": lock_bytes(U32 - 1),
    }[kind]
